"""Native oracles for C20: component-wise NumPy references with the operands in the stated order, explicit
leaf loops for the pytree helpers.  Checked against the real furax, witness first, then a seeded family."""
import dataclasses
import itertools
import operator

import jax
import jax.numpy as jnp
import numpy as np

from .C15 import class_for  # noqa: F401  (same statement, same oracle)

KINDS = ['I', 'QU', 'IQU', 'IQUV']
COMPS = {'I': 'i', 'QU': 'qu', 'IQU': 'iqu', 'IQUV': 'iquv'}
TOL = 1e-4


def cls_of(kind):
    from furax import landscapes as L
    return {'I': L.StokesIPyTree, 'QU': L.StokesQUPyTree, 'IQU': L.StokesIQUPyTree, 'IQUV': L.StokesIQUVPyTree}[kind]


def close(a, b, tol=TOL):
    a, b = np.asarray(a, dtype=np.float64), np.asarray(b, dtype=np.float64)
    return a.shape == b.shape and np.allclose(a, b, rtol=tol, atol=tol, equal_nan=True)


def rand_stokes(kind, rng, shape=(3,), lo=0.5, hi=2.5):
    return cls_of(kind)(*[jnp.asarray(rng.uniform(lo, hi, shape), dtype=jnp.float32) for _ in COMPS[kind]])


def comps(x, kind):
    if type(x) is not cls_of(kind):
        raise AssertionError(f'result is a {type(x).__name__}, not a {cls_of(kind).__name__}')
    names = [f.name for f in dataclasses.fields(x)]
    if names != list(COMPS[kind]):
        raise AssertionError(f'components {names}')
    return [np.asarray(getattr(x, c)) for c in COMPS[kind]]


def wnum(w, key, default):
    v = w.get(key)
    return float(v) if isinstance(v, (int, float)) and abs(v) < 1e3 else default


OPS = {'add': operator.add, 'sub': operator.sub, 'mul': operator.mul, 'truediv': operator.truediv, 'pow': operator.pow}


# ------------------------------------------------------------------------------------------------ arithmetic
def arith(w, seed, spec):
    rng = np.random.default_rng(seed)
    fails = []
    kinds = [spec['stokes']] if spec.get('stokes') else KINDS
    ops = [spec['op']] if spec.get('op') in OPS else list(OPS)
    s = wnum(w, 's', 1.7)
    if abs(s) < 1e-3:
        s = 1.7
    for kind in kinds:
        a, b = rand_stokes(kind, rng), rand_stokes(kind, rng)
        r = jnp.asarray(rng.uniform(0.5, 2.5, (3,)), dtype=jnp.float32)
        r0 = jnp.asarray(1.3, dtype=jnp.float32)
        an, bn = comps(a, kind), comps(b, kind)
        for name in ops:
            f = OPS[name]
            cases = [('a∘b', lambda: f(a, b), [f(x, y) for x, y in zip(an, bn)]),
                     ('a∘s', lambda: f(a, s), [f(x, np.float32(s)) for x in an]),
                     ('s∘a', lambda: f(s, a), [f(np.float32(s), x) for x in an]),
                     ('a∘r', lambda: f(a, r), [f(x, np.asarray(r)) for x in an]),
                     ('r∘a', lambda: f(r, a), [f(np.asarray(r), x) for x in an]),
                     ('a∘r0', lambda: f(a, r0), [f(x, np.asarray(r0)) for x in an]),
                     ('r0∘a', lambda: f(r0, a), [f(np.asarray(r0), x) for x in an])]
            for what, run, ref in cases:
                try:
                    got = comps(run(), kind)
                except Exception as e:      # noqa: BLE001
                    fails.append(f'{kind} {name} {what}: {type(e).__name__}: {e}')
                    continue
                for c, g, e in zip(COMPS[kind], got, ref):
                    if not close(g, e):
                        fails.append(f'{kind} {name} {what}: component {c} is {g[:2] if g.ndim else g}, expected {e[:2] if np.ndim(e) else e} '
                                     f'(operands in the stated order)')
            # direct calls of the two workers with a non-commutative operation
            nc = lambda x, y: 2 * x - y        # noqa: E731
            for method, exp in (('_operation', [nc(x, y) for x, y in zip(an, bn)]),
                                ('_roperation', [nc(y, x) for x, y in zip(an, bn)])):
                try:
                    got = comps(getattr(a, method)(nc, b), kind)
                    if not all(close(g, e) for g, e in zip(got, exp)):
                        fails.append(f'{kind}.{method}(op, same-class): operand order')
                    got = comps(getattr(a, method)(nc, r), kind)
                    exp2 = [nc(x, np.asarray(r)) if method == '_operation' else nc(np.asarray(r), x) for x in an]
                    if not all(close(g, e) for g, e in zip(got, exp2)):
                        fails.append(f'{kind}.{method}(op, array): operand order')
                except Exception as e:      # noqa: BLE001
                    fails.append(f'{kind}.{method}: {type(e).__name__}: {e}')
            # other operand kinds
            wrong = rand_stokes('QU' if kind != 'QU' else 'IQU', rng)
            for o in (None, wrong, object(), {'i': 1}):
                if a._operation(f, o) is not NotImplemented or a._roperation(f, o) is not NotImplemented:
                    fails.append(f'{kind} {name}: operand of type {type(o).__name__} does not give NotImplemented')
                for run in (lambda: f(a, o), lambda: f(o, a)):
                    try:
                        run()
                        fails.append(f'{kind} {name} with {type(o).__name__}: no TypeError')
                    except TypeError:
                        pass
                    except Exception as e:      # noqa: BLE001
                        fails.append(f'{kind} {name} with {type(o).__name__}: {type(e).__name__}')
            if len(fails) > 6:
                return fails
    return fails


def unary(w, seed, spec):
    rng = np.random.default_rng(seed)
    fails = []
    for kind in ([spec['stokes']] if spec.get('stokes') else KINDS):
        a = rand_stokes(kind, rng, (2, 3), -2, 2)
        b = rand_stokes(kind, rng, (2, 3), -2, 2)
        an, bn = comps(a, kind), comps(b, kind)
        idx = jnp.array([1, 0, 1])

        def cmp(what, got, ref):
            try:
                g = comps(got, kind)
            except AssertionError as e:
                fails.append(f'{kind} {what}: {e}')
                return
            for c, x, y in zip(COMPS[kind], g, ref):
                if not close(x, y):
                    fails.append(f'{kind} {what}: component {c} differs')
        cmp('neg', -a, [-x for x in an])
        cmp('abs', abs(a), [np.abs(x) for x in an])
        cmp('pos', +a, an)
        cmp('getitem[array]', a[idx], [x[np.asarray(idx)] for x in an])
        cmp('getitem[int]', a[1], [x[1] for x in an])
        cmp('getitem[tuple]', a[:, idx], [x[:, np.asarray(idx)] for x in an])
        cmp('ravel', a.ravel(), [x.ravel() for x in an])
        cmp('reshape', a.reshape((3, 2)), [x.reshape((3, 2)) for x in an])
        ref = sum(float(np.vdot(x, y)) for x, y in zip(an, bn))
        if not close(a @ b, ref):
            fails.append(f'{kind} a @ b = {a @ b}, expected {ref}')
        # complex components make the conjugation side observable
        ca = cls_of(kind)(*[jnp.asarray(x + 1j * (k + 1) * y, dtype=jnp.complex64) for k, (x, y) in enumerate(zip(an, bn))])
        cb = cls_of(kind)(*[jnp.asarray(y - 0.5j * x, dtype=jnp.complex64) for x, y in zip(an, bn)])
        cref = sum(np.sum(np.conj(np.asarray(getattr(ca, c))) * np.asarray(getattr(cb, c))) for c in COMPS[kind])
        if not np.allclose(np.asarray(ca @ cb), cref, rtol=1e-3, atol=1e-3):
            fails.append(f'{kind} a @ b on complex components = {ca @ cb}, expected the Hermitian sum {cref} '
                         f'(conjugate on the first operand)')
        # mixed pairs: complex @ real and real @ complex (which side is conjugated shows only here)
        for l, r, what in ((ca, b, 'complex @ real'), (a, cb, 'real @ complex')):
            mref = sum(np.sum(np.conj(np.asarray(getattr(l, c))) * np.asarray(getattr(r, c))) for c in COMPS[kind])
            if not np.allclose(np.asarray(l @ r), mref, rtol=1e-3, atol=1e-3):
                fails.append(f'{kind} {what} = {l @ r}, expected the Hermitian sum {mref} (conjugate on the first operand)')
        wrong = rand_stokes('QU' if kind != 'QU' else 'IQU', rng)
        for o in (None, 2.0, jnp.ones(3), wrong):
            if a.__matmul__(o) is not NotImplemented:
                fails.append(f'{kind}.__matmul__({type(o).__name__}) is not NotImplemented')
        if a.shape != (2, 3) or a.dtype != jnp.float32:
            fails.append(f'{kind}: shape/dtype {a.shape} {a.dtype}')
        for arr_ in (a, rand_stokes(kind, rng, (4,)), rand_stokes(kind, rng, (2, 1, 2))):
            try:
                st = arr_.structure
            except Exception as e:      # noqa: BLE001
                fails.append(f'{kind}: .structure raised {type(e).__name__}: {e}')
                continue
            leaves = jax.tree.leaves(st)
            if type(st) is not cls_of(kind) or len(leaves) != len(COMPS[kind]) or any(
                    l.shape != arr_.shape or l.dtype != jnp.float32 for l in leaves):
                fails.append(f'{kind}: structure {st}')
    return fails


# ------------------------------------------------------------------------------------------------ constructors
def from_stokes(w, seed, spec):
    from furax.landscapes import StokesPyTree
    rng = np.random.default_rng(seed)
    fails = []
    dts = [jnp.float16, jnp.float32, jnp.int32, jnp.bfloat16]
    by_arity = {1: 'I', 2: 'QU', 3: 'IQU', 4: 'IQUV'}
    for n in range(0, 7):
        for trial in range(3):
            dtypes = [dts[(trial + k) % len(dts)] for k in range(n)]
            vals = [rng.uniform(1, 9, (2,)).round() for _ in range(n)]
            args = [jnp.asarray(v, dtype=d) for v, d in zip(vals, dtypes)]
            sds = [jax.ShapeDtypeStruct((k + 1,), d) for k, d in enumerate(dtypes)]
            if n not in by_arity:
                for a in (args,):
                    try:
                        StokesPyTree.from_stokes(*a)
                        fails.append(f'from_stokes with {n} arguments did not raise')
                    except Exception as e:      # noqa: BLE001
                        if not isinstance(e, (TypeError, ValueError)) or (n > 0 and not isinstance(e, TypeError)):
                            fails.append(f'from_stokes with {n} arguments raised {type(e).__name__}')
                continue
            kind = by_arity[n]
            exp_dt = jnp.result_type(*args)
            for what, a in (('arrays', args), ('structures', sds)):
                try:
                    got = StokesPyTree.from_stokes(*a)
                except Exception as e:      # noqa: BLE001
                    fails.append(f'from_stokes({n} {what}): {type(e).__name__}: {e}')
                    continue
                if type(got) is not cls_of(kind):
                    fails.append(f'from_stokes({n} {what}) returned {type(got).__name__}')
                    continue
                for c, src, v in zip(COMPS[kind], a, [getattr(got, c) for c in COMPS[kind]]):
                    if v.dtype != exp_dt or v.shape != src.shape:
                        fails.append(f'from_stokes({n} {what}): component {c} has dtype {v.dtype} shape {v.shape}, expected '
                                     f'{exp_dt} {src.shape}')
                    elif what == 'arrays' and not close(v, np.asarray(src, dtype=np.float64), 1e-2):
                        fails.append(f'from_stokes({n} arrays): component {c} is not argument {c}')
    # keyword path
    vals = {k: jnp.asarray(rng.uniform(1, 9, (2,)), dtype=d) for k, d in zip('IQUV', [jnp.float16, jnp.float32, jnp.float32, jnp.float16])}
    for keys in (['I'], ['U', 'Q'], ['U', 'I', 'Q'], ['V', 'Q', 'I', 'U']):
        kind = ''.join(sorted(keys))
        try:
            got = StokesPyTree.from_stokes(**{k: vals[k] for k in keys})
        except Exception as e:      # noqa: BLE001
            fails.append(f'from_stokes(keywords {keys}): {type(e).__name__}: {e}')
            continue
        exp_dt = jnp.result_type(*[vals[k] for k in keys])
        if type(got) is not cls_of(kind):
            fails.append(f'from_stokes(keywords {keys}) returned {type(got).__name__}')
            continue
        for c in COMPS[kind]:
            v = getattr(got, c)
            if v.dtype != exp_dt or not close(v, np.asarray(vals[c.upper()], dtype=np.float64), 1e-2):
                fails.append(f'from_stokes(keywords {keys}): component {c} wrong')
    for keys in (['Q'], ['I', 'Q'], ['I', 'Q', 'U', 'X'], ['Q', 'U', 'V']):
        try:
            StokesPyTree.from_stokes(**{k: jnp.ones(2) for k in keys})
            fails.append(f'from_stokes(keywords {keys}) did not raise')
        except TypeError:
            pass
        except Exception as e:      # noqa: BLE001
            fails.append(f'from_stokes(keywords {keys}) raised {type(e).__name__}')
    try:
        StokesPyTree.from_stokes(jnp.ones(2), Q=jnp.ones(2))
        fails.append('from_stokes(positional and keyword) did not raise')
    except TypeError:
        pass
    return fails


def from_iquv(w, seed, spec):
    rng = np.random.default_rng(seed)
    fails = []
    for kind in ([spec['stokes']] if spec.get('stokes') else KINDS):
        for dts in ([jnp.float32] * 4, [jnp.float16, jnp.float32, jnp.float16, jnp.float32],
                    [jnp.float32, jnp.float16, jnp.float16, jnp.float16], [jnp.float16, jnp.float16, jnp.float32, jnp.float32],
                    [jnp.float16, jnp.float16, jnp.float16, jnp.float32]):
            vals = {c: jnp.asarray(rng.uniform(1, 9, (3,)).round() + k * 10, dtype=d) for k, (c, d) in enumerate(zip('iquv', dts))}
            try:
                got = cls_of(kind).from_iquv(*[vals[c] for c in 'iquv'])
                g = comps(got, kind)
            except Exception as e:      # noqa: BLE001
                fails.append(f'{kind}.from_iquv: {type(e).__name__}: {e}')
                continue
            exp_dt = jnp.result_type(*[vals[c] for c in COMPS[kind]])
            for c, v in zip(COMPS[kind], g):
                if not close(v, np.asarray(vals[c], dtype=np.float64), 1e-2):
                    fails.append(f'{kind}.from_iquv: component {c} is not argument {c}')
                if getattr(got, c).dtype != exp_dt:
                    fails.append(f'{kind}.from_iquv: component {c} has dtype {getattr(got, c).dtype}, expected {exp_dt}')
    return fails


def factories(w, seed, spec):
    fails = []
    key = jax.random.PRNGKey(seed)
    fill = wnum(w, 'fill_value', 3.5)
    for kind in ([spec['stokes']] if spec.get('stokes') else KINDS):
        cls = cls_of(kind)
        n = len(COMPS[kind])
        for shape, dtype in (((2, 3), jnp.float32), ((4,), jnp.float16)):
            keys = jax.random.split(key, n)
            builds = {
                'zeros': (lambda: cls.zeros(shape, dtype), lambda k: np.zeros(shape)),
                'ones': (lambda: cls.ones(shape, dtype), lambda k: np.ones(shape)),
                'full': (lambda: cls.full(shape, fill, dtype), lambda k: np.full(shape, fill)),
                'normal': (lambda: cls.normal(key, shape, dtype), lambda k: np.asarray(jax.random.normal(keys[k], shape, dtype))),
                'uniform': (lambda: cls.uniform(shape, key, dtype, 2.0, 5.0),
                            lambda k: np.asarray(jax.random.uniform(keys[k], shape, dtype, 2.0, 5.0))),
            }
            for name, (run, ref) in builds.items():
                try:
                    got = run()
                    g = comps(got, kind)
                except Exception as e:      # noqa: BLE001
                    fails.append(f'{kind}.{name}: {type(e).__name__}: {e}')
                    continue
                for k, (c, v) in enumerate(zip(COMPS[kind], g)):
                    if v.shape != shape or getattr(got, c).dtype != dtype:
                        fails.append(f'{kind}.{name}: component {c} has shape {v.shape} dtype {getattr(got, c).dtype}')
                    elif not close(v, ref(k), 1e-2):
                        fails.append(f'{kind}.{name}: component {c} has unexpected values (key split per leaf / fill value)')
    return fails


# ------------------------------------------------------------------------------------------------ furax.tree
def trees(rng, mk):
    from furax import landscapes as L
    out = [mk(), (mk(), mk()), [mk(), mk(), mk()], {'b': mk(), 'a': mk()}, {'a': [mk(), (mk(), mk())], 'b': mk(), 'c': None}]
    for kind in KINDS:
        out.append(cls_of(kind)(*[mk() for _ in COMPS[kind]]))
    return out


def tree_helpers(w, seed, spec):
    from furax import tree as ft
    rng = np.random.default_rng(seed)
    fails = []
    fn = spec.get('fn')
    dts = itertools.cycle([jnp.float32, jnp.float16, jnp.int32, jnp.complex64])
    shapes = itertools.cycle([(2,), (3, 2), (), (1, 4)])

    def mk_arr(real=False):
        d, s = next(dts), next(shapes)
        if real and d == jnp.complex64:
            d = jnp.float32
        v = rng.uniform(1, 5, s)
        if d == jnp.complex64:
            v = v + 1j * rng.uniform(1, 5, s)
        return jnp.asarray(v, dtype=d)

    def mk_sds():
        return jax.ShapeDtypeStruct(next(shapes), next(dts))
    n = [0]

    def mk_mixed():
        n[0] += 1
        return mk_sds() if n[0] % 3 == 1 else mk_arr()

    if fn in (None, 'dot'):
        for x in trees(rng, mk_arr):
            y = jax.tree.map(lambda l: jnp.asarray((np.asarray(l) * (0.5 + 0.25j) + 1).astype(np.asarray(l).dtype)
                                                   if np.iscomplexobj(l) else np.asarray(l) * 0.5 + 1, dtype=l.dtype), x)
            ref = sum(np.sum(np.conj(np.asarray(a)) * np.asarray(b)) for a, b in zip(jax.tree.leaves(x), jax.tree.leaves(y)))
            got = np.asarray(ft.dot(x, y))
            if not np.allclose(got, ref, rtol=1e-2, atol=1e-2):
                fails.append(f'dot on {type(x).__name__} with {len(jax.tree.leaves(x))} leaves: {got}, expected the Hermitian '
                             f'sum {ref} (conjugate on the first argument)')
        # mixed-dtype pairs: a complex tree against a real one, both ways
        zc = {'a': jnp.asarray([1 + 2j, -0.5j, 3.0], jnp.complex64), 'b': [jnp.asarray([[1j, 2.0]], jnp.complex64)]}
        zr = {'a': jnp.asarray([0.5, 2.0, -1.0], jnp.float32), 'b': [jnp.asarray([[3.0, -2.0]], jnp.float32)]}
        for x, y, what in ((zc, zr, 'complex . real'), (zr, zc, 'real . complex'), (zc, zc, 'complex . complex')):
            ref = sum(np.sum(np.conj(np.asarray(a)) * np.asarray(b)) for a, b in zip(jax.tree.leaves(x), jax.tree.leaves(y)))
            got = np.asarray(ft.dot(x, y))
            if not np.allclose(got, ref, rtol=1e-3, atol=1e-3):
                fails.append(f'dot {what}: {got}, expected the Hermitian sum {ref} (conjugate on the first argument)')
    passes = []
    for offset in range(4 if fn in (None, 'as_promoted_dtype') else 1):      # vary which leaf carries the widest dtype
        for maker, mname in ((mk_arr, 'arrays'), (mk_sds, 'structures'), (mk_mixed, 'mixed')):
            next(dts)
            passes.append((maker, mname))
    for maker, mname in passes:
        for x in trees(rng, maker):
            xl, td = jax.tree.flatten(x)

            def check(name, got, leafcheck):
                gl, gtd = jax.tree.flatten(got)
                if gtd != td or len(gl) != len(xl):
                    fails.append(f'{name} on {mname} {type(x).__name__}: tree structure changed')
                    return
                for k, (a, g) in enumerate(zip(xl, gl)):
                    msg = leafcheck(k, a, g)
                    if msg:
                        fails.append(f'{name} on {mname} {type(x).__name__}: leaf {k}: {msg}')
            if fn in (None, 'as_promoted_dtype'):
                exp = jnp.result_type(*xl)

                def lc(k, a, g):
                    if isinstance(a, jax.ShapeDtypeStruct) != isinstance(g, jax.ShapeDtypeStruct):
                        return 'array/structure kind changed'
                    if g.dtype != exp or g.shape != a.shape:
                        return f'dtype {g.dtype} shape {g.shape}, expected {exp} {a.shape}'
                    if not isinstance(a, jax.ShapeDtypeStruct) and not np.allclose(np.asarray(g), np.asarray(a).astype(exp), rtol=1e-2):
                        return 'values changed'
                check('as_promoted_dtype', ft.as_promoted_dtype(x), lc)
            if fn in (None, 'as_structure'):
                check('as_structure', ft.as_structure(x), lambda k, a, g: None if isinstance(g, jax.ShapeDtypeStruct)
                      and g.shape == a.shape and g.dtype == a.dtype else f'{g}')
            for name, run, val in (('full_like', lambda: ft.full_like(x, 3), 3), ('zeros_like', lambda: ft.zeros_like(x), 0),
                                   ('ones_like', lambda: ft.ones_like(x), 1)):
                if fn in (None, name):
                    check(name, run(), lambda k, a, g: None if isinstance(g, jax.Array) and g.shape == a.shape and g.dtype == a.dtype
                          and np.all(np.asarray(g) == val) else f'{g!r} for {a!r}')
    # random helpers need inexact leaves
    rdt = itertools.cycle([jnp.float32, jnp.float16])
    for maker, mname in ((lambda: jnp.zeros(next(shapes), next(rdt)), 'arrays'), (lambda: jax.ShapeDtypeStruct(next(shapes), next(rdt)), 'structures')):
        for x in trees(rng, maker):
            xl, td = jax.tree.flatten(x)
            key = jax.random.PRNGKey(seed + 1)
            keys = jax.random.split(key, len(xl))
            for name, run, ref in (('normal_like', lambda: ft.normal_like(x, key), lambda k, a: jax.random.normal(keys[k], a.shape, a.dtype)),
                                   ('uniform_like', lambda: ft.uniform_like(x, key, 2.0, 5.0),
                                    lambda k, a: jax.random.uniform(keys[k], a.shape, a.dtype, 2.0, 5.0)),
                                   ('uniform_like-defaults', lambda: ft.uniform_like(x, key),
                                    lambda k, a: jax.random.uniform(keys[k], a.shape, a.dtype, 0.0, 1.0))):
                if fn not in (None, name.split('-')[0]):
                    continue
                gl, gtd = jax.tree.flatten(run())
                if gtd != td:
                    fails.append(f'{name} on {mname} {type(x).__name__}: tree structure changed')
                    continue
                for k, (a, g) in enumerate(zip(xl, gl)):
                    if g.shape != a.shape or g.dtype != a.dtype or not np.allclose(np.asarray(g, dtype=np.float64),
                                                                                    np.asarray(ref(k, a), dtype=np.float64)):
                        fails.append(f'{name} on {mname} {type(x).__name__}: leaf {k} is not drawn from split(key, n)[{k}] '
                                     f'with the leaf shape/dtype')
    if fn in (None, 'is_leaf'):
        for v, exp in ((jnp.ones(2), True), (jax.ShapeDtypeStruct((2,), jnp.float32), True), (1.5, True), ((jnp.ones(2),), False),
                       ([1, 2], False), ({'a': 1}, False), (cls_of('QU')(jnp.ones(1), jnp.ones(1)), False)):
            if ft.is_leaf(v) is not exp:
                fails.append(f'is_leaf({type(v).__name__}) is {ft.is_leaf(v)}')
    return fails[:8]

"""Native oracles for C15: the property statement checked against the real furax with explicit 4x4 Mueller
matrices per sample (NumPy only), first on the witness, then on a seeded family."""
import itertools

import jax
import jax.numpy as jnp
import numpy as np

IDX = {'I': [0], 'QU': [1, 2], 'IQU': [0, 1, 2], 'IQUV': [0, 1, 2, 3]}
NAMES = 'iquv'
TOL = 2e-4


def M_hwp():
    return np.diag([1.0, 1.0, -1.0, -1.0])


def M_rot(a):
    c, s = np.cos(2 * a), np.sin(2 * a)
    return np.array([[1, 0, 0, 0], [0, c, -s, 0], [0, s, c, 0], [0, 0, 0, 1.0]])


def M_pol():
    return np.array([[0.5, 0.5, 0, 0]])


def sub(M, kind, rows=True):
    ix = IDX[kind]
    return M[np.ix_(ix if rows else range(M.shape[0]), ix)]


def stokes_cls(kind):
    # explicit table (independent of StokesPyTree.class_for, which is itself under test)
    from furax import landscapes as L
    return {'I': L.StokesIPyTree, 'QU': L.StokesQUPyTree, 'IQU': L.StokesIQUPyTree, 'IQUV': L.StokesIQUVPyTree}[kind]


def make_x(kind, arrays):
    return stokes_cls(kind)(*[jnp.asarray(a, dtype=jnp.float32) for a in arrays])


def to_np(kind, y):
    """stack the components of a Stokes container (or a bare array) on a leading axis"""
    if hasattr(y, 'stokes'):
        if y.stokes != kind:
            raise AssertionError(f'returned Stokes kind {y.stokes} instead of {kind}')
        return np.stack([np.asarray(getattr(y, c.lower()), dtype=np.float64) for c in y.stokes])
    return np.asarray(y, dtype=np.float64)[None]


def apply_ref(mats_fn, kind, angles, xs, rows=True):
    """per-sample product: for every sample index build the matrix from the broadcast angle and apply it"""
    xs = np.stack([np.asarray(v, dtype=np.float64) for v in xs])           # (ncomp, *shape)
    shape = xs.shape[1:]
    ang = [np.broadcast_to(np.asarray(a, dtype=np.float64), shape) for a in angles]
    first = mats_fn(*[a.flat[0] if a.size else 0.0 for a in ang]) if xs[0].size else None
    nrow = sub(first, kind, rows).shape[0] if first is not None else len(IDX[kind])
    out = np.zeros((nrow,) + shape)
    for pos in np.ndindex(*shape):
        M = sub(mats_fn(*[a[pos] for a in ang]), kind, rows)
        out[(slice(None),) + pos] = M @ xs[(slice(None),) + pos]
    return out


def close(a, b):
    a, b = np.asarray(a, dtype=np.float64), np.asarray(b, dtype=np.float64)
    return a.shape == b.shape and np.allclose(a, b, rtol=TOL, atol=TOL)


def structure(kind, shape):
    sds = jax.ShapeDtypeStruct(tuple(shape), jnp.float32)
    return stokes_cls(kind)(*[sds for _ in IDX[kind]])


def family(kind, w, seed, nangles=1):
    """(angles..., components) cases: the witness first, then seeded random ones with several broadcasting layouts"""
    rng = np.random.default_rng(seed)
    n = len(IDX[kind])
    cases = []
    try:
        ang = [float(w[k]) for k in ('a', 'b')[:nangles]]
        xs = [float(w['x_' + NAMES[i]]) for i in IDX[kind]]
        if all(abs(v) < 1e3 for v in ang + xs):
            cases.append(([np.full((1,), v) for v in ang], [np.full((1,), v) for v in xs]))
    except (KeyError, TypeError, ValueError):
        pass
    # "any broadcastable shape": trailing-axis broadcasting also on SQUARE data (the leading and the trailing axis have
    # the same length: a per-row reading of 1-D angles would go unnoticed elsewhere), column angles, higher ranks
    for shape, ashape in [((4,), (4,)), ((3, 4), (4,)), ((3, 4), (3, 4)), ((3, 4), (1,)), ((2,), ()), ((4, 4), (4,)),
                          ((3, 3), (3, 1)), ((2, 3, 3), (3,)), ((3, 2, 3), (3,))]:
        for _ in range(2):
            ang = [rng.uniform(-6.5, 6.5, ashape) for _ in range(nangles)]
            xs = [rng.standard_normal(shape) for _ in range(n)]
            cases.append((ang, xs))
    return cases


def _ops():
    from furax.operators.hwp import HWPOperator
    from furax.operators.polarizers import LinearPolarizerOperator
    from furax.operators.qu_rotations import QURotationOperator
    return HWPOperator, QURotationOperator, LinearPolarizerOperator


# ------------------------------------------------------------------------------------------------ mv
def mv(w, seed, spec):
    HWP, ROT, POL = _ops()
    fails = []
    kinds = [spec['stokes']] if spec.get('stokes') else list(IDX)
    opnames = [spec['op']] if spec.get('op') else ['hwp', 'rot', 'rotT', 'pol']
    for kind, opname in itertools.product(kinds, opnames):
        for (a,), xs in family(kind, w, seed):
            shape = np.shape(xs[0])
            st = structure(kind, shape)
            x = make_x(kind, xs)
            aj = jnp.asarray(a, dtype=jnp.float32)
            if opname == 'hwp':
                got, ref = HWP(st).mv(x), apply_ref(lambda t: M_hwp(), kind, [a], xs)
            elif opname == 'rot':
                got, ref = ROT(aj, st).mv(x), apply_ref(M_rot, kind, [a], xs)
            elif opname == 'rotT':
                op = ROT(aj, st)
                got, ref = op.T.mv(x), apply_ref(lambda t: M_rot(t).T, kind, [a], xs)
                neg = ROT(-aj, st).mv(x)
                if not close(to_np(kind, got), to_np(kind, neg)):
                    fails.append(f'{kind}: R(a).T differs from R(-a) for angles of shape {np.shape(a)}')
                ys = [np.asarray(v) * 0.5 + 1.0 for v in xs]
                y = make_x(kind, ys)
                lhs = float(np.sum(to_np(kind, op.mv(x)) * to_np(kind, y)))
                rhs = float(np.sum(to_np(kind, x) * to_np(kind, op.T.mv(y))))
                if abs(lhs - rhs) > 1e-3 * (1 + abs(lhs)):
                    fails.append(f'{kind}: <R x, y> = {lhs} but <x, R.T y> = {rhs}')
            else:
                got, ref = POL(st).mv(x), apply_ref(lambda t: M_pol(), kind, [a], xs, rows=False)
            try:
                g = to_np(kind, got)
            except AssertionError as e:
                fails.append(f'{opname} on {kind}: {e}')
                continue
            if not close(g, ref):
                fails.append(f'{opname}.mv on {kind} (data {shape}, angles {np.shape(a)}) differs from its Mueller matrix: '
                             f'got {g.reshape(g.shape[0], -1)[:, 0]}, expected {ref.reshape(ref.shape[0], -1)[:, 0]}')
            if len(fails) > 5:
                return fails
    return fails


# ------------------------------------------------------------------------------------------------ rules
def _apply_chain(ops, x):
    for op in reversed(ops):
        x = op.mv(x)
    return x


def rules(w, seed, spec):
    from furax.operators.hwp import QURotationHWPRule
    from furax.operators.polarizers import LinearPolarizerHWPRule
    from furax.operators.qu_rotations import QURotationRule
    HWP, ROT, POL = _ops()
    fails = []
    kinds = [spec['stokes']] if spec.get('stokes') else list(IDX)
    which = [spec['rule']] if spec.get('rule') else ['rot', 'hwp', 'pol']
    for kind, rule in itertools.product(kinds, which):
        combos = {'rot': ['RR', 'RT', 'TR', 'TT'], 'hwp': ['R', 'T'], 'pol': ['-']}[rule]
        if spec.get('combo') in combos:
            combos = [spec['combo']]
        for combo in combos:
            for (a, b), xs in family(kind, w, seed, nangles=2):
                shape = np.shape(xs[0])
                st = structure(kind, shape)
                x = make_x(kind, xs)
                ra, rb = ROT(jnp.asarray(a, dtype=jnp.float32), st), ROT(jnp.asarray(b, dtype=jnp.float32), st)
                if rule == 'rot':
                    left = ra.T if combo[0] == 'T' else ra
                    right = rb.T if combo[1] == 'T' else rb
                    sa, sb = (-1 if combo[0] == 'T' else 1), (-1 if combo[1] == 'T' else 1)
                    ref = apply_ref(lambda p, q: M_rot(sa * p) @ M_rot(sb * q), kind, [a, b], xs)
                    ref_sum = apply_ref(lambda p, q: M_rot(sa * p + sb * q), kind, [a, b], xs)
                    if not close(ref, ref_sum):
                        fails.append('oracle self-check: R(a)R(b) != R(a+b) in NumPy')
                    r = QURotationRule()
                elif rule == 'hwp':
                    left, right = (ra.T if combo == 'T' else ra), HWP(st)
                    sa = -1 if combo == 'T' else 1
                    ref = apply_ref(lambda p, q: M_rot(sa * p) @ M_hwp(), kind, [a, b], xs)
                    ref2 = apply_ref(lambda p, q: M_hwp() @ M_rot(-sa * p), kind, [a, b], xs)
                    if not close(ref, ref2):
                        fails.append('oracle self-check: R(a) HWP != HWP R(-a) in NumPy')
                    r = QURotationHWPRule()
                else:
                    left, right = POL(st), HWP(st)
                    ref = apply_ref(lambda p, q: M_pol() @ M_hwp(), kind, [a, b], xs, rows=False)
                    ref2 = apply_ref(lambda p, q: M_pol(), kind, [a, b], xs, rows=False)
                    if not close(ref, ref2):
                        fails.append('oracle self-check: Pol HWP != Pol in NumPy')
                    r = LinearPolarizerHWPRule()
                try:
                    r.check(left, right)
                    new = r.apply(left, right)
                except BaseException as e:      # noqa: BLE001  (NoReduction derives from BaseException)
                    fails.append(f'{type(r).__name__} refuses ({type(e).__name__}) the documented pair '
                                 f'{type(left).__name__}, {type(right).__name__}')
                    continue
                tag = f'{type(r).__name__}[{combo}] on {kind} (data {shape}, angles {np.shape(a)})'
                try:
                    direct = to_np(kind, _apply_chain([left, right], x))
                    rewritten = to_np(kind, _apply_chain(new, x))
                    reduced = to_np(kind, (left @ right).reduce().mv(x))
                except AssertionError as e:
                    fails.append(f'{tag}: {e}')
                    continue
                if not close(direct, ref):
                    fails.append(f'{tag}: left.mv(right.mv(x)) differs from the product of the Mueller matrices')
                if not close(rewritten, ref):
                    fails.append(f'{tag}: the rewritten operators differ from the product of the Mueller matrices '
                                 f'(got {rewritten.reshape(rewritten.shape[0], -1)[:, 0]}, expected '
                                 f'{ref.reshape(ref.shape[0], -1)[:, 0]})')
                if not close(reduced, ref):
                    fails.append(f'{tag}: (left @ right).reduce() differs from the product of the Mueller matrices')
                # the operands themselves must be unaffected by rule application / reduction, also when the caller's
                # angle arrays are (mutable) numpy arrays
                if rule in ('rot', 'hwp'):
                    an, bn = np.array(a, dtype=np.float32, copy=True), np.array(b, dtype=np.float32, copy=True)
                    if an.ndim and bn.ndim:
                        a0, b0 = an.copy(), bn.copy()
                        ran, rbn = ROT(an, st), ROT(bn, st)
                        l2 = ran.T if combo[0] == 'T' else ran
                        r2 = (rbn.T if combo[1] == 'T' else rbn) if rule == 'rot' else HWP(st)
                        before = to_np(kind, _apply_chain([l2, r2], x))
                        try:
                            (l2 @ r2).reduce()
                        except BaseException:       # noqa: BLE001
                            pass
                        after = to_np(kind, _apply_chain([l2, r2], x))
                        if not close(before, after) or not np.array_equal(an, a0) or not np.array_equal(bn, b0):
                            fails.append(f'{tag}: reducing the product modified its operands (numpy angle arrays updated '
                                         f'in place)')
                if len(fails) > 5:
                    return fails
    return fails


def check_table(w, seed, spec):
    from furax._base.core import CompositionOperator, HomothetyOperator, IdentityOperator
    from furax._base.rules import NoReduction
    from furax.operators.hwp import QURotationHWPRule
    from furax.operators.polarizers import LinearPolarizerHWPRule
    from furax.operators.qu_rotations import QURotationRule, QURotationTransposeOperator
    HWP, ROT, POL = _ops()
    st = structure('IQU', (2,))
    rot = ROT(jnp.array([0.1, 0.2]), st)
    insts = [rot, rot.T, HWP(st), POL(st), IdentityOperator(st), HomothetyOperator(2.0, st),
             CompositionOperator([HWP(st), rot])]
    doc = {QURotationRule: ((ROT, QURotationTransposeOperator), (ROT, QURotationTransposeOperator)),
           QURotationHWPRule: ((ROT, QURotationTransposeOperator), (HWP,)),
           LinearPolarizerHWPRule: ((POL,), (HWP,))}
    fails = []
    for rcls, (ls, rs) in doc.items():
        if spec.get('rule') and spec['rule'] != rcls.__name__:
            continue
        for left, right in itertools.product(insts, insts):
            expect = isinstance(left, ls) and isinstance(right, rs)
            try:
                rcls().check(left, right)
                got = True
            except NoReduction:
                got = False
            if got != expect:
                fails.append(f'{rcls.__name__}.check({type(left).__name__}, {type(right).__name__}) '
                             f'{"accepts" if got else "refuses"} although the pair is '
                             f'{"documented" if expect else "not documented"}')
    return fails


# ------------------------------------------------------------------------------------------------ factories
def factories(w, seed, spec):
    HWP, ROT, POL = _ops()
    fails = []
    kinds = [spec['stokes']] if spec.get('stokes') else list(IDX)
    which = [spec['factory']] if spec.get('factory') else ['hwp', 'pol', 'rot']
    for kind, fac in itertools.product(kinds, which):
        for (a,), xs in family(kind, w, seed):
            shape = np.shape(xs[0])
            x = make_x(kind, xs)
            aj = jnp.asarray(a, dtype=jnp.float32)
            cls = {'hwp': HWP, 'pol': POL, 'rot': ROT}[fac]
            variants = [('angles', dict(angles=aj))] + ([('plain', {})] if fac != 'rot' else [])
            for vname, kw in variants:
                try:
                    op = cls.create(shape, jnp.float32, kind, **kw)
                except Exception as e:      # noqa: BLE001
                    fails.append(f'{cls.__name__}.create({kind}, {vname}) raised {type(e).__name__}: {e}')
                    continue
                if fac == 'hwp':
                    fn = (lambda t: M_rot(-t) @ M_hwp() @ M_rot(t)) if kw else (lambda t: M_hwp())
                    ref = apply_ref(fn, kind, [a], xs)
                elif fac == 'pol':
                    fn = (lambda t: M_pol() @ M_rot(t)) if kw else (lambda t: M_pol())
                    ref = apply_ref(fn, kind, [a], xs, rows=False)
                else:
                    ref = apply_ref(M_rot, kind, [a], xs)
                if op.in_structure() != structure(kind, shape):
                    fails.append(f'{cls.__name__}.create({kind}, {vname}): wrong input structure')
                for label, o in (('', op), ('.reduce()', op.reduce())):
                    try:
                        g = to_np(kind, o.mv(x))
                    except AssertionError as e:
                        fails.append(f'{cls.__name__}.create({kind}, {vname}){label}: {e}')
                        continue
                    if not close(g, ref):
                        fails.append(f'{cls.__name__}.create({kind}, {vname}){label} differs from the product of its '
                                     f'Mueller matrices (data {shape}, angles {np.shape(a)})')
            if len(fails) > 5:
                return fails
    return fails


# ------------------------------------------------------------------------------------------------ class_for
def class_for(w, seed, spec):
    from furax.landscapes import (StokesIPyTree, StokesIQUPyTree, StokesIQUVPyTree, StokesPyTree, StokesQUPyTree)
    fails = []
    table = {'I': (StokesIPyTree, ('i',)), 'QU': (StokesQUPyTree, ('q', 'u')), 'IQU': (StokesIQUPyTree, ('i', 'q', 'u')),
             'IQUV': (StokesIQUVPyTree, ('i', 'q', 'u', 'v'))}
    for kind, (cls, comps) in table.items():
        try:
            got = StokesPyTree.class_for(kind)
        except Exception as e:      # noqa: BLE001
            fails.append(f'class_for({kind!r}) raised {type(e).__name__}')
            continue
        import dataclasses
        fields = tuple(f.name for f in dataclasses.fields(got))
        if got is not cls or fields != comps or got.stokes != kind:
            fails.append(f'class_for({kind!r}) returned {got.__name__} with components {fields}')
        for shape, dtype in [((2, 3), jnp.float32), ((), jnp.float16), ((4,), jnp.int32)]:
            try:
                s = cls.structure_for(shape, dtype)
            except Exception as e:      # noqa: BLE001
                fails.append(f'{cls.__name__}.structure_for({shape}, {dtype}) raised {type(e).__name__}: {e}')
                continue
            leaves = jax.tree.leaves(s)
            if type(s) is not cls or len(leaves) != len(kind) or any(
                    l.shape != shape or l.dtype != dtype or not isinstance(l, jax.ShapeDtypeStruct) for l in leaves):
                fails.append(f'{cls.__name__}.structure_for({shape}, {dtype}) -> {s}')
    bad = ['', 'Q', 'U', 'V', 'IQ', 'UQ', 'QUI', 'iqu', 'IQUVI', 'IQUV ', ' I', 'II', 'QUV', 'IV', None, 3, ('I',)]
    ws = w.get('stokes')
    if isinstance(ws, list) and all(isinstance(c, int) and 0 <= c < 0x110000 for c in ws):
        bad.insert(0, ''.join(chr(c) for c in ws))
    elif isinstance(ws, str) and ws not in table:
        bad.insert(0, ws)
    for s in bad:
        if s in table:
            continue
        try:
            got = StokesPyTree.class_for(s)
            fails.append(f'class_for({s!r}) returned {got} instead of raising ValueError')
        except ValueError:
            pass
        except Exception as e:      # noqa: BLE001
            fails.append(f'class_for({s!r}) raised {type(e).__name__} instead of ValueError')
    return fails

"""Native oracles for C16: explicit per-(detector, direction, sample) NumPy loop — Z-Y-Z Euler rotation of the detector
direction, pixel lookup, Mueller row — against the real furax operators.  Run with 64-bit mode on (spec['x64']).

`projection` / `acquisition` call the real factories.  `*_patched` do the same with furax.projections.IndexOperator
replaced, IN THE ORACLE PROCESS ONLY, by a wrapper that passes `out_structure` explicitly to the real constructor: on a
tree that still has finding C16-F1 (constructor raising AttributeError; fixed by /repo 7013af6) this lets the rest of
the factories' real bodies be compared with the explicit model.  The pack itself uses the unpatched oracles."""
import numpy as np

import jax
import jax.numpy as jnp

COMPS = {'I': 'i', 'QU': 'qu', 'IQU': 'iqu', 'IQUV': 'iquv'}


def rz(a):
    c, s = np.cos(a), np.sin(a)
    return np.array([[c, -s, 0], [s, c, 0], [0, 0, 1.0]])


def ry(a):
    c, s = np.cos(a), np.sin(a)
    return np.array([[c, 0, s], [0, 1.0, 0], [-s, 0, c]])


def euler(phi, theta, psi):
    return rz(phi) @ ry(theta) @ rz(psi)


def close(a, b, tol=1e-9):
    a, b = np.asarray(a, dtype=np.float64), np.asarray(b, dtype=np.float64)
    return a.shape == b.shape and np.allclose(a, b, rtol=tol, atol=tol)


def angles(rng, n):
    return rng.uniform(0.05, np.pi - 0.05, n), rng.uniform(-np.pi, np.pi, n), rng.uniform(-np.pi, np.pi, n)


def make_inputs(seed, nside, kind, ndet, ndir, nsamp, dtype):
    from furax.detectors import DetectorArray
    from furax.landscapes import HealpixLandscape
    from furax.samplings import Sampling
    rng = np.random.default_rng(seed)
    theta, phi, psi = angles(rng, nsamp)
    x = rng.uniform(-0.3, 0.3, (ndet, ndir))
    y = rng.uniform(-0.3, 0.3, (ndet, ndir))
    dets = DetectorArray(x, y, 1.0)
    land = HealpixLandscape(nside, kind, dtype)
    samp = Sampling(jnp.asarray(theta), jnp.asarray(phi), jnp.asarray(psi))
    sky = land.normal(jax.random.PRNGKey(seed))
    return land, samp, dets, sky, (theta, phi, psi), np.stack([x, y, np.ones_like(x)])


def explicit_model(land, sky, ang, xyz, kind, acquisition=False):
    """(ncomp, ndet, ndir, nsamp) projection values, or (ndet, ndir, nsamp) acquisition values"""
    import jax_healpy as jhp
    theta, phi, psi = ang
    _, ndet, ndir = xyz.shape
    nsamp = len(theta)
    comps = {c: np.asarray(getattr(sky, c), dtype=np.float64) for c in COMPS[kind]}
    out = np.zeros((len(comps), ndet, ndir, nsamp))
    acq = np.zeros((ndet, ndir, nsamp))
    for d in range(ndet):
        for m in range(ndir):
            v0 = xyz[:, d, m] / np.linalg.norm(xyz[:, d, m])
            for t in range(nsamp):
                v = euler(phi[t], theta[t], psi[t]) @ v0
                th, ph = np.arccos(v[2] / np.linalg.norm(v)), np.arctan2(v[1], v[0])
                pix = int(jhp.ang2pix(land.nside, th, ph))
                s = {c: comps[c][pix] for c in comps}
                c2, s2 = np.cos(2 * psi[t]), np.sin(2 * psi[t])
                r = dict(s)
                if 'q' in s:
                    r['q'] = s['q'] * c2 - s['u'] * s2
                    r['u'] = s['q'] * s2 + s['u'] * c2
                for k, c in enumerate(COMPS[kind]):
                    out[k, d, m, t] = r[c]
                acq[d, m, t] = 0.5 * (r.get('i', 0.0) + r.get('q', 0.0))
    return acq if acquisition else out


def patch_ctor():
    import furax.projections as PJ
    from furax._base.indices import IndexOperator

    def ctor(indices, *, in_structure, **kw):
        out = jax.eval_shape(lambda x: jax.tree.map(lambda l: l[indices], x), in_structure)
        return IndexOperator(indices, in_structure=in_structure, out_structure=out, **kw)
    PJ.IndexOperator = ctor


def configs(w, spec):
    kinds = [spec['stokes']] if spec.get('stokes') else list(COMPS)
    ndirs = [int(spec['ndir'])] if spec.get('ndir') else [1, 2]
    dtype = {'float32': np.float32, 'float64': np.float64}[spec.get('dtype', 'float64')]
    out = []
    wn = [w.get(k) for k in ('nside', 'ndet', 'nsamp')]
    if all(isinstance(v, int) and 1 <= v <= 8 for v in wn) and (wn[0] & (wn[0] - 1)) == 0:
        nd = w.get('ndir') if isinstance(w.get('ndir'), int) and 1 <= w['ndir'] <= 4 else ndirs[0]
        if (nd == 1) == (ndirs[0] == 1) or not spec.get('ndir'):
            out.append((wn[0], kinds[0], wn[1], nd, wn[2], dtype))
    for kind in kinds:
        for ndir in ndirs:
            out.append((1, kind, 2, ndir, 4, dtype))
            out.append((2, kind, 3, ndir, 5, dtype))
    return out


def stack(y, kind):
    if type(y).__name__ != {'I': 'StokesIPyTree', 'QU': 'StokesQUPyTree', 'IQU': 'StokesIQUPyTree', 'IQUV': 'StokesIQUVPyTree'}[kind]:
        raise AssertionError(f'output is a {type(y).__name__}')
    return np.stack([np.asarray(getattr(y, c), dtype=np.float64) for c in COMPS[kind]])


def _projection(w, seed, spec, patched):
    from furax.projections import create_projection_operator
    from furax._base.core import AbstractLinearOperator
    if patched:
        patch_ctor()
    fails = []
    for nside, kind, ndet, ndir, nsamp, dtype in configs(w, spec):
        land, samp, dets, sky, ang, xyz = make_inputs(seed, nside, kind, ndet, ndir, nsamp, dtype)
        tag = f'create_projection_operator(nside={nside}, {kind}, ndet={ndet}, ndir={ndir}, nsamp={nsamp}, {np.dtype(dtype).name})'
        try:
            P = create_projection_operator(land, samp, dets)
        except Exception as e:      # noqa: BLE001
            fails.append(f'{tag} raised {type(e).__name__}: {e}')
            continue
        ref = explicit_model(land, sky, ang, xyz, kind)
        if ndir == 1:
            ref = ref[:, :, 0, :]
        tol = 1e-9 if dtype == np.float64 else 1e-4
        for label, op in (('', P), ('.reduce()', P.reduce())):
            try:
                got = stack(op(sky), kind)
            except Exception as e:      # noqa: BLE001
                fails.append(f'{tag}{label}: applying it raised {type(e).__name__}: {e}')
                continue
            if not close(got, ref, tol):
                fails.append(f'{tag}{label}: differs from the explicit pointing model (output shape {got.shape}, expected {ref.shape})')
        if nside == 1 and dtype == np.float64 and ndir == 1:
            import jax_healpy as jhp  # noqa: F401
            try:
                ptp = (P.T @ P).reduce()
                dense = np.asarray(AbstractLinearOperator.as_matrix(ptp))
                idx = np.asarray(P.operands[1].indices[0]).ravel()
                counts = np.bincount(idx, minlength=12 * nside ** 2).astype(float)
                exp = np.diag(np.tile(counts, len(COMPS[kind])))
                if not close(dense, exp, 1e-8):
                    fails.append(f'{tag}: (P.T @ P).reduce() is not the diagonal of hit counts')
            except Exception as e:      # noqa: BLE001
                fails.append(f'{tag}: (P.T @ P).reduce() raised {type(e).__name__}: {e}')
        if len(fails) > 4:
            break
    fails += _high_resolution(seed)
    return fails


def _high_resolution(seed):
    """pixel numbers beyond 2**24 (nside >= 2048, southern part of the map): the landscape's index of a direction is
    the HEALPix pixel containing it — no map is allocated, only the indices are compared"""
    import jax.numpy as jnp
    import jax_healpy as jhp
    from furax.landscapes import HealpixLandscape
    fails = []
    rng = np.random.default_rng(seed + 99)
    for nside in (2048, 4096):
        theta = jnp.asarray(rng.uniform(2.0, 3.1, 64).astype(np.float32))
        phi = jnp.asarray(rng.uniform(0, 2 * np.pi, 64).astype(np.float32))
        want = np.asarray(jhp.ang2pix(nside, theta, phi)).astype(np.int64)
        for dtype in (np.float32, np.float64):
            try:
                got = np.asarray(HealpixLandscape(nside, 'I', dtype).world2index(theta, phi)).astype(np.int64)
            except Exception as e:      # noqa: BLE001
                fails.append(f'HealpixLandscape(nside={nside}).world2index raised {type(e).__name__}: {e}')
                continue
            bad = np.flatnonzero(got.ravel() != want.ravel())
            if bad.size:
                k = int(bad[0])
                fails.append(f'HealpixLandscape(nside={nside}, I, {np.dtype(dtype).name}).world2index: {bad.size}/64 directions '
                             f'get another pixel than ang2pix (e.g. {int(got.ravel()[k])} instead of {int(want.ravel()[k])})')
    return fails


def projection(w, seed, spec):
    return _projection(w, seed, spec, False)


def projection_patched(w, seed, spec):
    return _projection(w, seed, spec, True)


def _acquisition(w, seed, spec, patched):
    from furax.instruments.sat import create_acquisition
    if patched:
        patch_ctor()
    fails = []
    for nside, kind, ndet, ndir, nsamp, dtype in configs(w, spec):
        land, samp, dets, sky, ang, xyz = make_inputs(seed, nside, kind, ndet, ndir, nsamp, dtype)
        tag = f'create_acquisition(nside={nside}, {kind}, ndet={ndet}, ndir={ndir}, nsamp={nsamp}, {np.dtype(dtype).name})'
        try:
            H = create_acquisition(land, samp, dets)
        except Exception as e:      # noqa: BLE001
            fails.append(f'{tag} raised {type(e).__name__}: {e}')
            continue
        ref = explicit_model(land, sky, ang, xyz, kind, acquisition=True)
        if ndir == 1:
            ref = ref[:, 0, :]
        try:
            got = np.asarray(H(sky), dtype=np.float64)
        except Exception as e:      # noqa: BLE001
            fails.append(f'{tag}: applying it raised {type(e).__name__}: {e}')
            continue
        if not close(got, ref, 1e-9 if dtype == np.float64 else 1e-4):
            fails.append(f'{tag}: differs from (I + Q cos 2psi - U sin 2psi)/2 at the pointed pixel '
                         f'(output shape {got.shape}, expected {ref.shape})')
        if len(fails) > 4:
            break
    return fails


def acquisition(w, seed, spec):
    return _acquisition(w, seed, spec, False)


def acquisition_patched(w, seed, spec):
    return _acquisition(w, seed, spec, True)


# ------------------------------------------------------------------------------------------------ pieces
def rotation_matrix(w, seed, spec):
    from furax.projections import get_rotation_matrix
    from furax.samplings import Sampling
    rng = np.random.default_rng(seed)
    fails = []
    cases = []
    try:
        cases.append(tuple(np.array([float(w[k])]) for k in ('theta', 'phi', 'psi')))
    except (KeyError, TypeError, ValueError):
        pass
    for n in (1, 4, 7):
        cases.append(tuple(rng.uniform(-2 * np.pi, 2 * np.pi, n) for _ in range(3)))
    cases.append((np.array([0.3, 1.1]), np.array([0.0, 0.0]), np.array([0.0, 0.0])))
    cases.append((np.array([0.0, 0.0]), np.array([0.4, -1.2]), np.array([0.0, 0.0])))
    cases.append((np.array([0.0, 0.0]), np.array([0.0, 0.0]), np.array([0.7, 2.2])))
    for theta, phi, psi in cases:
        if not all(np.all(np.abs(a) < 1e3) for a in (theta, phi, psi)):
            continue
        r = np.asarray(get_rotation_matrix(Sampling(jnp.asarray(theta), jnp.asarray(phi), jnp.asarray(psi))))
        if r.shape != (3, 3, len(theta)):
            fails.append(f'get_rotation_matrix returned shape {r.shape}')
            continue
        for t in range(len(theta)):
            ref = euler(phi[t], theta[t], psi[t])
            if not close(r[:, :, t], ref, 1e-9):
                bad = np.argwhere(~np.isclose(r[:, :, t], ref, atol=1e-9))
                fails.append(f'get_rotation_matrix(theta={theta[t]:.3f}, phi={phi[t]:.3f}, psi={psi[t]:.3f}) differs from '
                             f'Rz(phi)Ry(theta)Rz(psi) at entries {bad.tolist()}')
                break
        if len(fails) > 4:
            break
    return fails


def vec2dir(w, seed, spec):
    from furax.projections import vec2dir as v2d
    rng = np.random.default_rng(seed)
    fails = []
    xyz = rng.uniform(-2, 2, (3, 2, 2, 5))
    try:
        wv = [float(w[k]) for k in 'xyz']
        if any(abs(v) > 1e-6 for v in wv) and all(abs(v) < 1e3 for v in wv):
            xyz[:, 0, 0, 0] = wv
    except (KeyError, TypeError, ValueError):
        pass
    th, ph = v2d(*[jnp.asarray(a) for a in xyz])
    r = np.sqrt((xyz ** 2).sum(axis=0))
    if not close(th, np.arccos(xyz[2] / r), 1e-9):
        fails.append('vec2dir: theta is not arccos(z / sqrt(x^2+y^2+z^2))')
    if not close(ph, np.arctan2(xyz[1], xyz[0]), 1e-9):
        fails.append('vec2dir: phi is not arctan2(y, x)')
    return fails


def detectors(w, seed, spec):
    from furax.detectors import DetectorArray
    from furax.samplings import Sampling
    rng = np.random.default_rng(seed)
    fails = []
    for shape in ((3,), (3, 2), (2, 1)):
        x, y = rng.uniform(-1, 1, shape), rng.uniform(-1, 1, shape)
        # "all detector layouts": directions behind the focal plane (z < 0) and mixed signs are layouts too
        for z in (1.0, 0.42, rng.uniform(0.5, 2, shape), -1.0, rng.uniform(-2, 2, shape)):
            d = DetectorArray(x, y, z)
            zz = np.broadcast_to(z, shape)
            n = np.sqrt(x ** 2 + y ** 2 + zz ** 2)
            if d.shape != shape or len(d) != int(np.prod(shape)):
                fails.append(f'DetectorArray shape {d.shape} len {len(d)} for inputs of shape {shape}')
            if not close(d.coords, np.stack([x / n, y / n, zz / n]), 1e-12):
                fails.append(f'DetectorArray coords are not (x, y, z) / norm for shape {shape}')
    for n in (1, 4):
        s = Sampling(jnp.zeros(n), jnp.zeros(n), jnp.zeros(n))
        if len(s) != n:
            fails.append(f'len(Sampling) = {len(s)} for {n} samples')
    return fails

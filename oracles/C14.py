"""Native oracles for C14: the adjoint dot-test <A x, y> = <x, A^T y> with plain numpy.einsum, dense comparison of
op.T through the generic column-by-column builder, per-leaf numpy.einsum for mv.  Independent of furax's own
subscript logic: the only furax code called on the string is the function under test."""
import itertools

import jax
import jax.numpy as jnp
import numpy as np

from .common import S, close, dense, rand_tree

SIZES = {}


def _size(ch):
    # distinct small sizes per label so that a wrong relabelling cannot pass by symmetry
    return SIZES.setdefault(ch, 2 + len(SIZES) % 3)


def _terms(s):
    if s.count(',') != 1 or s.count('->') != 1:
        return None
    l, rest = s.split(',')
    r, o = rest.split('->')
    return l, r, o


def _shape(term, ell):
    out = []
    t = term
    while t:
        if t.startswith('...'):
            out.extend(ell)
            t = t[3:]
        else:
            out.append(_size(t[0]))
            t = t[1:]
    return tuple(out)


def _letters(term):
    return term.replace('...', '')


def _well_formed(s):
    t = _terms(s)
    if t is None:
        return False
    for term in t:
        if term.count('...') > 1 or not _letters(term).isalpha() and _letters(term) != '':
            return False
        if '.' in _letters(term):
            return False
    return True


def check_string(s, rng, ell=(2,)):
    """None if the property holds for this subscripts string, else a failure message"""
    from furax._base.dense import DenseBlockDiagonalOperator as D
    if not _well_formed(s):
        return None
    l, r, o = _terms(s)
    A = rng.standard_normal(_shape(l, ell))
    x = rng.standard_normal(_shape(r, ell))
    try:
        Ax = np.einsum(s, A, x)
    except Exception:           # noqa: BLE001  not an einsum expression numpy accepts: outside the property's domain
        return None
    y = rng.standard_normal(Ax.shape)
    ll, rl, ol = _letters(l), _letters(r), _letters(o)
    contracted = sorted(set(ll) & set(rl) - set(ol))
    free = sorted(set(ll) & set(ol) - set(rl))
    try:
        t = D._get_transposed_subscripts(s)
    except ValueError:
        if len(contracted) == 1 and len(free) == 1:
            c, f = contracted[0], free[0]
            sw = {c: f, f: c}
            if ''.join(sw.get(ch, ch) for ch in o) == r and ll.count(c) == 1 and ll.count(f) == 1 \
                    and len(set(ol)) == len(ol):
                return f'{s!r}: refused although swapping {c!r} and {f!r} gives the transpose'
        return None
    except Exception as e:      # noqa: BLE001
        return f'{s!r}: undeclared {type(e).__name__} from _get_transposed_subscripts'
    if len(contracted) != 1 or len(free) != 1:
        return f'{s!r}: rewritten to {t!r} although contracted letters = {contracted}, free block letters = {free}'
    try:
        ATy = np.einsum(t, A, y)
    except Exception as e:      # noqa: BLE001
        return f'{s!r}: transposed subscripts {t!r} cannot be applied to an output of the operator ({type(e).__name__})'
    if ATy.shape != x.shape:
        return f'{s!r}: transposed subscripts {t!r} give shape {ATy.shape}, input shape is {x.shape}'
    lhs, rhs = float(np.vdot(Ax, y)), float(np.vdot(x, ATy))
    if abs(lhs - rhs) > 1e-8 * (1 + abs(lhs)):
        return f'{s!r}: transposed subscripts {t!r} are not the adjoint (<Ax,y>={lhs:.6g}, <x,ATy>={rhs:.6g})'
    return None


def _witness_string(w):
    try:
        dots = w.get('dots') or [False, False, False]
        parts = []
        for nm, d in zip('LRS', dots):
            t = ''.join(chr(c) for c in w[nm + '1'])
            if d:
                t += '...' + ''.join(chr(c) for c in w[nm + '2'])
            parts.append(t)
        return f'{parts[0]},{parts[1]}->{parts[2]}'
    except Exception:           # noqa: BLE001
        return None


def _family(rng, n_random=400):
    alpha = 'ijk'
    out = ['ij...,j...->i...', 'hij...,hj...->hi...', 'ikj,kj->ki', 'imn,in->im', 'ij,j->i', '...ij,...j->...i',
           'i...j,j...->i...', 'ji,j->i', 'kij,kj->ki', 'ij,ij->i', 'ij,j->ij', 'ijk,jk->i', 'ij,k->i',
           # the ellipsis written on different sides of the input and of the output term: must be refused or exact
           'ij...,...j->i...', 'ij...,j...->...i', '...ij,j...->...i', 'i...j,...j->i...', '...ij,...j->i...',
           'iji,j->i', 'i...ji,j...->i...']
    terms = [''.join(p) for n in range(0, 4) for p in itertools.product(alpha, repeat=n)]
    for _ in range(n_random):
        l, r, o = (terms[int(rng.integers(len(terms)))] for _ in range(3))
        pieces = []
        for t in (l, r, o):
            if rng.integers(3) == 0:
                p = int(rng.integers(len(t) + 1))
                t = t[:p] + '...' + t[p:]
            pieces.append(t)
        out.append(f'{pieces[0]},{pieces[1]}->{pieces[2]}')
    return out


def subscripts(w, seed, spec, exclude_repeated=True):
    """property statement on the witness string, then on a seeded family of strings over {i, j, k}; strings of the
    listed finding's class (contracted or free letter repeated in the blocks' term) are left to `repeated_letter`"""
    rng = np.random.default_rng(seed)
    fails = []
    cand = []
    ws = _witness_string(w)
    if ws:
        cand.append(ws)
    cand += _family(rng)
    for s in cand:
        t = _terms(s)
        if exclude_repeated and t is not None:
            ll, rl, ol = (_letters(x) for x in t)
            special = (set(ll) & set(rl) - set(ol)) | (set(ll) & set(ol) - set(rl))
            if any(ll.count(ch) > 1 for ch in special):
                continue
        for ell in ((), (2,), ('same',)):
            if '...' not in s and ell:
                continue
            if ell == ('same',):
                # every label and the broadcast axis of one common size: shape errors cannot mask a wrong relabelling
                saved = dict(SIZES)
                for ch in 'hijkmn':
                    SIZES[ch] = 3
                try:
                    m = check_string(s, rng, (3,))
                finally:
                    SIZES.clear()
                    SIZES.update(saved)
            else:
                m = check_string(s, rng, ell)
            if m:
                fails.append(m)
                break
        if len(fails) > 5:
            break
    return fails


def repeated_letter(w, seed, spec):
    """finding C14-repeated-letter: a contracted / free letter that stands twice in the blocks' term"""
    rng = np.random.default_rng(seed)
    fails = []
    for s in ['iji,j->i', 'iij,j->i', 'jij,j->i', 'ijj,j->i', 'kiji,kj->ki', 'iji...,j...->i...']:
        m = check_string(s, rng, (2,))
        if m:
            fails.append(m)
    return fails


def broadcast_input(w, seed, spec):
    """finding C14-ellipsis-broadcasts-input: op.T.out_structure() must equal op.in_structure() — or op.T is refused"""
    from furax._base.dense import DenseBlockDiagonalOperator as D
    fails = []
    for bshape, xshape, subs in [((2, 3, 5), (3,), 'ij...,j...->i...'), ((2, 3, 4, 5), (3, 5), 'ij...,j...->i...'),
                                 ((2, 3, 5), (3, 1), 'ij...,j...->i...'),
                                 # named axes broadcast too: a batch letter of size 1 in the input against larger blocks
                                 ((4, 3, 2), (1, 2), 'kij,kj->ki'), ((3, 4, 2), (1, 2), 'ikj,kj->ki'),
                                 ((4, 3, 2), (1, 2), 'kij...,kj...->ki...')]:
        blocks = jnp.asarray(np.random.default_rng(seed).standard_normal(bshape), dtype=jnp.float32)
        op = D(blocks, S(xshape), subs)
        try:
            outs = op.T.out_structure()
        except ValueError:
            continue                    # rejected with an error: what the property asks for when no exact transpose exists
        except Exception as e:          # noqa: BLE001
            fails.append(f'blocks {bshape}, input {xshape}: op.T.out_structure() raises {type(e).__name__}')
            continue
        if outs != op.in_structure():
            fails.append(f'blocks {bshape}, input {xshape}, {subs!r}: op.T.out_structure() = {outs.shape} but '
                         f'op.in_structure() = {op.in_structure().shape}')
    return fails


def structures(w, seed, spec):
    """struct facet without input broadcasting: outs(op.T) == ins(op), ins(op.T) == outs(op); dense(op.T) == dense(op).T"""
    from furax._base.dense import DenseBlockDiagonalOperator as D
    rng = np.random.default_rng(seed)
    fails = []
    cases = [((2, 3, 5), (3, 5), 'ij...,j...->i...'), ((2, 3), (3,), 'ij...,j...->i...'), ((4, 2, 3), (4, 3), 'imn,in->im'),
             ((2, 4, 3), (4, 3), 'ikj,kj->ki'), ((2, 3, 1), (3, 5), 'ij...,j...->i...')]
    for bshape, xshape, subs in cases:
        blocks = jnp.asarray(rng.standard_normal(bshape), dtype=jnp.float32)
        op = D(blocks, S(xshape), subs)
        try:
            t = op.T
            if t.in_structure() != op.out_structure():
                fails.append(f'{subs!r} blocks {bshape} input {xshape}: op.T.in_structure() is not op.out_structure()')
                continue
            if t.out_structure() != op.in_structure():
                fails.append(f'{subs!r} blocks {bshape} input {xshape}: op.T.out_structure() is not op.in_structure()')
                continue
            if t.blocks is not op.blocks and not close(t.blocks, op.blocks):
                fails.append(f'{subs!r}: op.T does not keep the blocks')
            if not close(dense(t), dense(op).T, 1e-4):
                fails.append(f'{subs!r} blocks {bshape} input {xshape}: dense(op.T) != dense(op).T')
        except Exception as e:          # noqa: BLE001
            fails.append(f'{subs!r} blocks {bshape} input {xshape}: transposing / applying op.T raises {type(e).__name__}')
    return fails


def mv(w, seed, spec):
    """mv applies einsum(subscripts, blocks, leaf) per leaf: one shared block array, or one block array per leaf"""
    try:
        return _mv(w, seed, spec)
    except Exception as e:          # noqa: BLE001
        return [f'applying / constructing the operator raises {type(e).__name__}: {e}'[:300]]


def _mv(w, seed, spec):
    from furax._base.dense import DenseBlockDiagonalOperator as D
    rng = np.random.default_rng(seed)
    fails = []
    subs = 'ij...,j...->i...'
    shared = jnp.asarray(rng.standard_normal((2, 3, 4)), dtype=jnp.float32)
    struct = {'a': S((3, 4)), 'b': S((3, 4))}
    x = rand_tree(struct, seed)
    y = D(shared, struct, subs)(x)
    for k in struct:
        if not close(y[k], np.einsum(subs, np.asarray(shared), np.asarray(x[k])), 1e-4):
            fails.append(f'shared blocks: leaf {k!r} is not einsum(subscripts, blocks, leaf)')
    per_leaf = {'a': jnp.asarray(rng.standard_normal((2, 3, 4)), dtype=jnp.float32),
                'b': jnp.asarray(rng.standard_normal((5, 3, 4)), dtype=jnp.float32)}
    y = D(per_leaf, struct, subs)(x)
    for k in struct:
        if not close(y[k], np.einsum(subs, np.asarray(per_leaf[k]), np.asarray(x[k])), 1e-4):
            fails.append(f'per-leaf blocks: leaf {k!r} is not einsum(subscripts, blocks[leaf], leaf)')
    xs = jnp.asarray(rng.standard_normal((3, 4)), dtype=jnp.float32)
    if not close(D(shared, S((3, 4)), subs)(xs), np.einsum(subs, np.asarray(shared), np.asarray(xs)), 1e-4):
        fails.append('single leaf: result is not einsum(subscripts, blocks, x)')
    # plain 2-D blocks against inputs with 0, 1, 2 and 3 extra dimensions, default and other subscripts (a matrix-product
    # shortcut agrees with einsum only up to one extra dimension), single leaf, shared blocks over a pytree, per-leaf blocks
    m33 = jnp.asarray(rng.integers(-3, 4, (3, 3)), dtype=jnp.float32)
    m23 = jnp.asarray(rng.integers(-3, 4, (2, 3)), dtype=jnp.float32)
    for blocks, ss in ((m33, subs), (m23, subs), (m33, 'ji...,j...->i...'), (m33, 'ij,...j->...i')):
        for extra in ((), (3,), (3, 2), (3, 3, 2)):
            shape = (3,) + extra if ss.startswith(('ij.', 'ji.')) else extra + (3,)
            xs = jnp.asarray(rng.standard_normal(shape), dtype=jnp.float32)
            ref = np.einsum(ss, np.asarray(blocks), np.asarray(xs))
            try:
                op = D(blocks, S(shape), ss)
                if not close(op(xs), ref, 1e-4):
                    fails.append(f'2-d blocks {tuple(blocks.shape)}, {ss!r}, input {shape}: result is not einsum(subscripts, blocks, x)')
                tree = {'p': S(shape), 'q': S(shape)}
                xt = rand_tree(tree, seed + len(shape))
                yt = D(blocks, tree, ss)(xt)
                if any(not close(yt[k], np.einsum(ss, np.asarray(blocks), np.asarray(xt[k])), 1e-4) for k in tree):
                    fails.append(f'2-d shared blocks {tuple(blocks.shape)}, {ss!r}, pytree of {shape}: not einsum per leaf')
                yp = D({'p': blocks, 'q': 2 * blocks}, tree, ss)(xt)
                if not close(yp['q'], np.einsum(ss, 2 * np.asarray(blocks), np.asarray(xt['q'])), 1e-4):
                    fails.append(f'2-d per-leaf blocks {tuple(blocks.shape)}, {ss!r}, pytree of {shape}: not einsum per leaf')
            except Exception as e:      # noqa: BLE001
                fails.append(f'2-d blocks {tuple(blocks.shape)}, {ss!r}, input {shape}: raises {type(e).__name__}: {str(e)[:80]}')
            if len(fails) > 6:
                return fails
    # constructor validation
    for bad, why in [('ij,j,k->i', 'two commas'), ('ij,j', 'no arrow'), ('ij->i', 'no comma'), ('ij,j->i->k', 'two arrows')]:
        try:
            D(shared, S((3, 4)), bad)
            fails.append(f'constructor accepts {bad!r} ({why})')
        except ValueError:
            pass
        except Exception as e:      # noqa: BLE001
            fails.append(f'constructor raises {type(e).__name__} for {bad!r}')
    try:
        D(jnp.ones(3), S((3,)), subs)
        fails.append('constructor accepts 1-dimensional blocks')
    except ValueError:
        pass
    op = D(shared, S((3, 4)), ' ij..., j... -> i... ')
    if op.subscripts != subs:
        fails.append(f'spaces are not removed from the subscripts: {op.subscripts!r}')
    return fails

"""Native oracles for C05 (run under /venv/bin/python against the real furax), each in BOTH precision modes: the function
runs in the mode it is started in and re-runs itself in a subprocess with the other value of jax_enable_x64.

  structures      : structure (pytree, leaf shapes, leaf dtypes) of op.mv(zeros matching in_structure()) against
                    op.out_structure(), for one instance of every operator class (filtered by spec['cls']), extra
                    instances on pytrees / other dtypes / mixed-dtype pytrees, and seeded random expressions; composites
                    report the structures of their parts
  sizes           : in_size / out_size against the sums of the leaf sizes, in_/out_promoted_dtype against the lattice join
                    of the leaf dtypes (jnp.promote_types, canonicalised)
  promotion_table : conformance of the dtype model embedded in theories/dtypes.py with the installed JAX (bounded
                    conformance check of an ASSUMED contract — never counted as proof)
"""
import ast
import functools
import json
import os
import subprocess
import sys
import warnings

import jax
import jax.numpy as jnp
import numpy as np

from . import catalog
from .C04 import all_instances
from .common import S

warnings.filterwarnings('ignore')
HERE = os.path.dirname(os.path.abspath(__file__))


def _other_mode(name, seed, spec):
    """the same oracle in the other precision mode (subprocess); returns its failure lines"""
    if spec.get('_child'):
        return []
    child = dict(spec)
    child.update({'name': name, 'seed': seed, '_child': True, 'x64': not bool(jax.config.jax_enable_x64), 'witness': {}})
    env = dict(os.environ)
    env.setdefault('JAX_PLATFORMS', 'cpu')
    r = subprocess.run([sys.executable, os.path.join(HERE, 'run.py'), 'C05'], input=json.dumps(child), capture_output=True,
                       text=True, env=env, cwd=os.path.dirname(HERE), timeout=900)
    tag = '[jax_enable_x64=%s] ' % child['x64']
    out = [tag + ln[len('FAIL: '):] for ln in r.stdout.splitlines() if ln.startswith('FAIL: ')]
    if r.returncode not in (0, 1):
        out.append(tag + 'oracle error: ' + (r.stderr or '')[-300:])
    return out


def _mode():
    return 'x64=%s' % bool(jax.config.jax_enable_x64)


def _struct_of(tree):
    return jax.tree.map(lambda l: jax.ShapeDtypeStruct(l.shape, l.dtype), tree)


def _describe(tree):
    return str(jax.tree.map(lambda l: f'{np.dtype(l.dtype).name}{list(l.shape)}', tree))[:160]


def _same(a, b):
    if jax.tree.structure(a) != jax.tree.structure(b):
        return 'different pytrees'
    for u, v in zip(jax.tree.leaves(a), jax.tree.leaves(b)):
        if tuple(u.shape) != tuple(v.shape):
            return f'leaf shapes {tuple(u.shape)} / {tuple(v.shape)}'
        if np.dtype(u.dtype) != np.dtype(v.dtype):
            return f'leaf dtypes {np.dtype(u.dtype).name} / {np.dtype(v.dtype).name}'
    return None


def _realisable(struct):
    return all(np.dtype(jnp.zeros((), l.dtype).dtype) == np.dtype(l.dtype) for l in jax.tree.leaves(struct))


def dtype_instances(seed):
    """operators on other dtypes and on mixed-dtype pytrees, parameters no wider than the data"""
    from furax._base import axes, blocks, core, diagonal, indices
    from furax.landscapes import StokesIQUPyTree, StokesQUPyTree
    from furax.operators import hwp, polarizers, qu_rotations, toeplitz
    rng = np.random.default_rng(seed + 29)
    r32 = lambda *sh: jnp.asarray(rng.uniform(0.5, 1.5, sh).astype(np.float32))     # noqa: E731
    wide = jnp.float64 if jax.config.jax_enable_x64 else jnp.float32
    mixed = {'a': S((3,), jnp.float32), 'b': [S((2, 3), wide), S((1, 3), jnp.float32)]}
    s64 = S((2, 3), wide)
    st64 = StokesIQUPyTree.structure_for((4,), wide)
    qu64 = StokesQUPyTree.structure_for((2, 2), wide)
    D = lambda s: diagonal.DiagonalOperator(r32(3), in_structure=s)       # noqa: E731
    table = {
        'IdentityOperator{mixed}': lambda: core.IdentityOperator(mixed),
        'HomothetyOperator{mixed, weak scalar}': lambda: core.HomothetyOperator(jnp.asarray(2.), mixed),
        'HomothetyOperator{mixed, float32 scalar}': lambda: core.HomothetyOperator(r32(), mixed),
        'DiagonalOperator{mixed}': lambda: D(mixed),
        'DiagonalInverseOperator{mixed}': lambda: D(mixed).I,
        'BroadcastDiagonalOperator{wide}': lambda: diagonal.BroadcastDiagonalOperator(r32(4, 3), in_structure=S((3,), wide)),
        'HWPOperator{wide}': lambda: hwp.HWPOperator(st64),
        'QURotationOperator{wide, float32 angles}': lambda: qu_rotations.QURotationOperator(r32(4), st64),
        'QURotationOperator{broadcast angles}': lambda: qu_rotations.QURotationOperator(r32(2), qu64),
        'QURotationTransposeOperator{wide}': lambda: qu_rotations.QURotationOperator(r32(4), st64).T,
        'LinearPolarizerOperator{wide}': lambda: polarizers.LinearPolarizerOperator(st64),
        'RavelOperator{mixed}': lambda: axes.RavelOperator(in_structure=mixed),
        'ReshapeTransposeOperator{mixed}': lambda: axes.RavelOperator(in_structure=mixed).T,
        'MoveAxisOperator.T{wide}': lambda: axes.MoveAxisOperator(0, 1, in_structure=s64).T,
        'IndexOperator{wide}': lambda: indices.IndexOperator((slice(None), jnp.array([2, 0])), in_structure=s64),
        'AdditionOperator{mixed}': lambda: D(mixed) + core.HomothetyOperator(r32(), mixed),
        'CompositionOperator{wide}': lambda: indices.IndexOperator(0, in_structure=s64) @ D(s64),
        'TransposeOperator{wide}': lambda: core.TransposeOperator(indices.IndexOperator(0, in_structure=s64) @ D(s64)),
        'BlockDiagonalOperator{mixed blocks}': lambda: blocks.BlockDiagonalOperator({'p': D(S((3,), jnp.float32)), 'q': D(s64)}),
        'BlockRowOperator{wide}': lambda: blocks.BlockRowOperator([D(s64), core.HomothetyOperator(r32(), s64)]),
        'BlockColumnOperator{wide}': lambda: blocks.BlockColumnOperator({'u': D(s64), 'v': indices.IndexOperator(0, in_structure=s64)}),
        'InverseOperator{wide}': lambda: (D(S((3,), wide)) + core.HomothetyOperator(1 + r32(), S((3,), wide))).I,
    }
    from furax._base import dense

    def refused_is_fine(make):
        # a configuration the constructor is expected to refuse (ValueError): nothing to check then
        def f():
            try:
                return make()
            except ValueError:
                return None
        return f
    table.update({
        'HWPOperator{QU}': lambda: hwp.HWPOperator(StokesQUPyTree.structure_for((3,), jnp.float32)),
        'HWPOperator{QU wide}': lambda: hwp.HWPOperator(qu64),
        'BlockRowOperator{rectangular blocks}': lambda: blocks.BlockRowOperator(
            [indices.IndexOperator(0, in_structure=s64), indices.IndexOperator(1, in_structure=s64)]),
        'BlockColumnOperator{rectangular blocks}': lambda: blocks.BlockColumnOperator(
            [indices.IndexOperator(0, in_structure=s64), D(s64)]),
        'DenseBlockDiagonalOperator{blocks wider than the data}': lambda: dense.DenseBlockDiagonalOperator(
            jnp.asarray(rng.uniform(0.5, 1.5, (2, 3)), wide), S((3,), jnp.float32), 'ij,j->i'),
        'DiagonalOperator{values that would enlarge the input}': refused_is_fine(
            lambda: diagonal.DiagonalOperator(r32(3, 4), axis_destination=(0, 1), in_structure=S((3,), jnp.float32))),
    })
    for m in toeplitz.SymmetricBandToeplitzOperator.METHODS:
        table[f'SymmetricBandToeplitzOperator({m}){{wide}}'] = (lambda m=m: toeplitz.SymmetricBandToeplitzOperator(
            jnp.asarray(rng.uniform(0.5, 1.5, 3), wide), S((2, 16), wide), method=m))
    for name, make in table.items():
        try:
            yield name, make()
        except Exception as e:      # noqa: BLE001
            yield name, e


def _check_structure(name, op, fails):
    try:
        ins, outs = op.in_structure(), op.out_structure()
    except Exception as e:      # noqa: BLE001
        fails.append(f'{name}: in_structure()/out_structure() raises {type(e).__name__}: {str(e)[:80]} [{_mode()}]')
        return
    if not _realisable(ins):
        return                      # no input matches this structure in the current precision mode
    x = jax.tree.map(lambda l: jnp.zeros(l.shape, l.dtype), ins)
    try:
        y = op.mv(x)
    except Exception as e:      # noqa: BLE001
        fails.append(f'{name}: mv(zeros matching in_structure) raises {type(e).__name__}: {str(e)[:80]} [{_mode()}]')
        return
    d = _same(_struct_of(y), outs)
    if d:
        fails.append(f'{name}: structure of mv(x) {_describe(y)} differs from out_structure() {_describe(outs)}: {d} [{_mode()}]')
    # composites report the structures of their parts
    from furax._base import blocks, core
    if isinstance(op, core.CompositionOperator):
        if _same(ins, op.operands[-1].in_structure()) or _same(outs, op.operands[0].out_structure()):
            fails.append(f'{name}: a composition does not report the structures of its ends [{_mode()}]')
    if isinstance(op, core.AdditionOperator):
        for t in op.operand_leaves:
            if _same(ins, t.in_structure()) or _same(outs, t.out_structure()):
                fails.append(f'{name}: a sum does not report the structures of its terms [{_mode()}]')
    if isinstance(op, core._AbstractLazyDualOperator) and not isinstance(op, core.AbstractLazyInverseOrthogonalOperator):
        if _same(ins, op.operator.out_structure()) or _same(outs, op.operator.in_structure()):
            fails.append(f'{name}: a lazy transpose / inverse does not report the swapped structures of its operand [{_mode()}]')
    if isinstance(op, blocks.BlockDiagonalOperator):
        if _same(ins, jax.tree.map(lambda b: b.in_structure(), op.blocks, is_leaf=lambda b: isinstance(b, core.AbstractLinearOperator))) or \
                _same(outs, jax.tree.map(lambda b: b.out_structure(), op.blocks, is_leaf=lambda b: isinstance(b, core.AbstractLinearOperator))):
            fails.append(f'{name}: a block diagonal operator does not report the structures of its blocks [{_mode()}]')
    try:
        red = op.reduce()
        if _same(red.in_structure(), ins) or _same(red.out_structure(), outs):
            fails.append(f'{name}: the reduced operator reports other structures [{_mode()}]')
        d = _same(_struct_of(red.mv(x)), outs)
        if d:
            fails.append(f'{name}: the REDUCED operator returns {_describe(red.mv(x))}, declared {_describe(outs)}: {d} [{_mode()}]')
    except Exception as e:      # noqa: BLE001
        fails.append(f'{name}: reduce() raises {type(e).__name__} [{_mode()}]')


def _instances(seed, only):
    for name, op in all_instances(seed, only):
        yield name, op
    for name, op in dtype_instances(seed):
        if (only and not name.startswith(only)) or op is None:
            continue
        yield name, op


def structures(w, seed, spec):
    fails = []
    only = spec.get('cls')
    done = 0
    for name, op in _instances(seed, only):
        if isinstance(op, Exception):
            fails.append(f'{name}: cannot be built: {type(op).__name__}: {str(op)[:80]} [{_mode()}]')
            continue
        _check_structure(name, op, fails)
        done += 1
    if only and done == 0 and not fails and not spec.get('_child'):
        return structures(w, seed, {k: v for k, v in spec.items() if k != 'cls'})
    if not only:
        for desc, op in catalog.Gen(seed).expressions(8, depth=2):
            _check_structure(desc, op, fails)
    fails += _other_mode('structures', seed, spec)
    return fails[:10]


def _check_sizes(name, op, fails):
    try:
        ins, outs = op.in_structure(), op.out_structure()
        got = (op.in_size(), op.out_size(), np.dtype(op.in_promoted_dtype), np.dtype(op.out_promoted_dtype))
    except Exception as e:      # noqa: BLE001
        fails.append(f'{name}: sizes / promoted dtypes raise {type(e).__name__}: {str(e)[:80]} [{_mode()}]')
        return

    def size(t):
        return sum(int(np.prod(l.shape)) for l in jax.tree.leaves(t))

    def promoted(t):
        ds = [np.dtype(l.dtype) for l in jax.tree.leaves(t)]
        d = functools.reduce(jnp.promote_types, ds)
        return np.dtype(jnp.zeros((), d).dtype)          # canonicalised in the current precision mode
    want = (size(ins), size(outs), promoted(ins), promoted(outs))
    for what, g, e in zip(('in_size', 'out_size', 'in_promoted_dtype', 'out_promoted_dtype'), got, want):
        if g != e:
            fails.append(f'{name}: {what} is {g}, the structures give {e} [{_mode()}]')


def sizes(w, seed, spec):
    fails = []
    only = spec.get('cls')
    for name, op in _instances(seed, only):
        if isinstance(op, Exception):
            continue
        _check_sizes(name, op, fails)
    fails += _other_mode('sizes', seed, spec)
    return fails[:10]


def _tables():
    src = open(os.path.join(os.path.dirname(HERE), 'theories', 'dtypes.py')).read()
    out = {}
    for node in ast.parse(src).body:
        if isinstance(node, ast.Assign) and isinstance(node.targets[0], ast.Name) and \
                node.targets[0].id in ('STRONG', 'WEAK', 'FLOAT_FN', 'TRUE_DIV', 'NARROW', 'NAMES'):
            out[node.targets[0].id] = ast.literal_eval(node.value)
    return out


def promotion_table(w, seed, spec):
    t = _tables()
    x64 = bool(jax.config.jax_enable_x64)
    canon = (lambda n: n) if x64 else (lambda n: t['NARROW'].get(n, n))
    fails = []
    sds = lambda n: jax.ShapeDtypeStruct((2,), n)       # noqa: E731
    for a in t['NAMES']:
        for b in t['NAMES']:
            got = np.dtype(jnp.result_type(sds(a), sds(b))).name
            if got != canon(t['STRONG'][a][b]):
                fails.append(f'result_type({a}, {b}) is {got}, the model says {canon(t["STRONG"][a][b])} [{_mode()}]')
            x, y = jnp.zeros(2, a), jnp.zeros(2, b)
            if x.dtype == np.dtype(a) and y.dtype == np.dtype(b):
                got = np.dtype((x * y).dtype).name
                if got != canon(t['STRONG'][a][b]):
                    fails.append(f'({a} array * {b} array).dtype is {got}, the model says {canon(t["STRONG"][a][b])} [{_mode()}]')
        x = jnp.zeros(2, a)
        if x.dtype != np.dtype(a):
            continue
        for kind, v in (('int', 2), ('float', 2.0), ('complex', 2j)):
            got = np.dtype((v * x).dtype).name
            if got != canon(t['WEAK'][kind][a]):
                fails.append(f'(python {kind} * {a} array).dtype is {got}, the model says {canon(t["WEAK"][kind][a])} [{_mode()}]')
        got = np.dtype(jnp.cos(x).dtype).name
        if got != canon(t['FLOAT_FN'][a]):
            fails.append(f'cos({a} array).dtype is {got}, the model says {canon(t["FLOAT_FN"][a])} [{_mode()}]')
        got = np.dtype((1 / x).dtype).name if a != 'bool' else canon(t['TRUE_DIV'][a])
        if got != canon(t['TRUE_DIV'][a]):
            fails.append(f'(1 / {a} array).dtype is {got}, the model says {canon(t["TRUE_DIV"][a])} [{_mode()}]')
        if a != 'bool' and np.dtype((-x).dtype).name != a:
            fails.append(f'(-{a} array).dtype changes [{_mode()}]')
    fails += _other_mode('promotion_table', seed, spec)
    return fails[:10]


def reduced_scalars(w, seed, spec):
    """scalar factors merged / moved by reduce(): the reduced operator still returns its declared structure on pytrees of
    mixed dtypes (scalars no wider than the data: Python scalars, weak 0-d arrays, float32 / int32 scalars), plus the
    conformance of the assumed contract `jnp.array(python scalar)` is weakly typed"""
    from furax._base import core, diagonal
    fails = []
    for v in (1, 2.0):
        if not (jnp.array(v).weak_type and jnp.asarray(v).weak_type and jnp.array(v).shape == ()):
            fails.append(f'conformance: jnp.array({v!r}) is not a weakly typed 0-d array [{_mode()}]')
    if not (jnp.asarray(2.0) * jnp.int32(3)).weak_type or (jnp.asarray(2j) * jnp.float32(3)).weak_type:
        fails.append(f'conformance: weak-type rule of a weak scalar against a strongly typed operand [{_mode()}]')
    rng = np.random.default_rng(seed)
    wide = np.float64 if jax.config.jax_enable_x64 else np.float32
    trees = [{'tod': S((2, 3), np.float32), 'ground': S((3,), wide)}, [S((3,), wide), S((3,), np.float32)], S((3,), np.float32)]
    scalars = [(2, 3), (2.0, 0.5), (jnp.float32(2), jnp.float32(3)), (np.float32(2), 3), (jnp.int32(2), jnp.float32(0.5)),
               (jnp.asarray(2.0), jnp.int32(3))]
    for t in trees:
        vals = jnp.asarray(rng.uniform(0.5, 1.5, (3,)).astype(np.float32))
        D = diagonal.DiagonalOperator(vals, in_structure=t)
        for a, b in scalars:
            exprs = {f'{a!r} * ({b!r} * D)': lambda: a * (b * D), f'(D * {a!r}) / {b!r}': lambda: (D * a) / b,
                     f'H({a!r}) @ D @ H({b!r})': lambda: core.HomothetyOperator(a, t) @ D @ core.HomothetyOperator(b, t),
                     f'D @ H({a!r}) @ D @ H({b!r}) @ D': lambda: D @ core.HomothetyOperator(a, t) @ D @ core.HomothetyOperator(b, t) @ D,
                     f'H({a!r}) @ H({b!r})': lambda: core.CompositionOperator([core.HomothetyOperator(a, t), core.HomothetyOperator(b, t)])}
            for desc, make in exprs.items():
                try:
                    op = make()
                except Exception as e:      # noqa: BLE001
                    fails.append(f'{desc} on {_describe(t)}: cannot be built: {type(e).__name__} [{_mode()}]')
                    continue
                _check_structure(f'{desc} on {_describe(t)}', op, fails)
                if len(fails) > 8:
                    break
    # rectangular neighbours: the rebuilt scalar operator must sit on the structure of the end it is moved to
    from furax._base.indices import IndexOperator
    from furax._base.linear import PackOperator
    s4 = S((4,), np.float32)
    d4 = diagonal.DiagonalOperator(jnp.asarray([1., 2., 3., 4.], np.float32), in_structure=s4)
    pack = PackOperator(jnp.asarray([True, False, True, False]), s4)
    pick = IndexOperator(jnp.asarray([2, 0]), in_structure=s4)
    rect = {'pack @ (2 * D)': lambda: pack @ (2 * d4), 'pack @ (2 * D) @ (3 * D)': lambda: pack @ (2 * d4) @ (3 * d4),
            '(2 * D) @ pack.T': lambda: (2 * d4) @ pack.T, 'pick @ (D / 2) @ pick.T': lambda: pick @ (d4 / 2) @ pick.T,
            'pack @ (-D)': lambda: pack @ (-d4), 'D @ pack.T @ (2 * (pack @ D))': lambda: d4 @ pack.T @ (2 * (pack @ d4))}
    for desc, make in rect.items():
        try:
            op = make()
        except Exception as e:      # noqa: BLE001
            fails.append(f'{desc}: cannot be built: {type(e).__name__} [{_mode()}]')
            continue
        _check_structure(desc, op, fails)
        try:
            red = op.reduce()
            if _same(red.out_structure(), op.out_structure()) or _same(red.in_structure(), op.in_structure()):
                fails.append(f'{desc}: the reduced operator declares other structures than the original [{_mode()}]')
            np.asarray(red.as_matrix())
        except Exception as e:      # noqa: BLE001
            fails.append(f'{desc}: reduce() / as_matrix() of the reduced operator raises {type(e).__name__}: {str(e)[:80]} [{_mode()}]')
    fails += _other_mode('reduced_scalars', seed, spec)
    return fails[:10]


def finding_mixed_stokes(w, seed, spec):
    """listed finding: QU rotation of a Stokes container whose components have different dtypes (64-bit mode)"""
    from furax.landscapes import StokesIQUPyTree, StokesQUPyTree
    from furax.operators.qu_rotations import QURotationOperator
    fails = []
    if not jax.config.jax_enable_x64:
        return _other_mode('finding_mixed_stokes', seed, spec)
    f32, f64 = jnp.float32, jnp.float64
    cases = [('QU(q float32, u float64)', StokesQUPyTree(S((3,), f32), S((3,), f64))),
             ('IQU(i float32, q float64, u float32)', StokesIQUPyTree(S((2,), f32), S((2,), f64), S((2,), f32)))]
    for desc, s in cases:
        for nm, op in (('QURotationOperator', QURotationOperator(jnp.ones(s.shape, f32), s)),
                       ('QURotationTransposeOperator', QURotationOperator(jnp.ones(s.shape, f32), s).T)):
            _check_structure(f'{nm} on {desc}', op, fails)
    return fails[:4]

"""Native oracles for C12: the property statement checked directly against the real furax with NumPy references
(x[indices], np.add.at, multiplicities by counting, generic dense matrices).

Failures that are exactly a *listed open finding* of known_findings.json are reported only by the finding's own
oracle (finding_*), so that the general oracles return [] on the unchanged tree and still flag anything else."""
import itertools
import json
import os

import jax
import jax.numpy as jnp
import numpy as np

from .common import S, close, dense

HERE = os.path.dirname(os.path.abspath(__file__))


def _open_findings():
    try:
        data = json.load(open(os.path.join(os.path.dirname(HERE), 'known_findings.json')))
    except OSError:
        return set()
    return {f['id'] for f in data.get('findings', []) if f.get('property') == 'C12' and f.get('status') == 'open'}


OPEN = _open_findings()
F_INIT = 'C12-init-eval-shape'
F_SCALAR = 'C12-scalar-out-structure'
F_ALIAS = 'C12-negative-alias-multiplicities'
F_UNIQUE = 'C12-unique-pair-not-reduced'
F_PACK = 'C12-pack-generic-pytree'


# ------------------------------------------------------------------------------------------ building index tuples
def _item(kind, dim, rng, variant=0):
    """an in-bounds index item of the given kind for an axis of length dim"""
    if kind == 'k_int':
        return int(rng.integers(-dim, dim))
    if kind == 'k_slice':
        return [slice(0, max(1, dim - 1)), slice(None, None, -1), slice(1, None), slice(0, None)][variant % 4]
    if kind == 'k_fullslice':
        return slice(None)
    if kind == 'k_ellipsis':
        return Ellipsis
    if kind == 'k_intarray':
        shape = [(3,), (2, 2), (1,), (5,)][variant % 4]
        return jnp.asarray(rng.integers(-dim, dim, shape))
    if kind == 'k_mask':
        m = rng.integers(0, 2, dim).astype(bool)
        m[int(rng.integers(0, dim))] = True        # a non-empty selection
        return jnp.asarray(m)
    raise ValueError(kind)


def _tuple_for(kinds, shape, rng, variant=0):
    """index tuple of the given kinds for an array of the given shape (None if it does not fit)"""
    non_ell = [k for k in kinds if k != 'k_ellipsis']
    if kinds.count('k_ellipsis') > 1 or len(non_ell) > len(shape):
        return None
    if 'k_mask' in kinds and kinds.count('k_mask') + kinds.count('k_intarray') > 1:
        return None             # several advanced indices must broadcast: integer arrays of one shape only
    out = []
    if 'k_ellipsis' in kinds:
        e = kinds.index('k_ellipsis')
        axes = list(range(e)) + [None] + list(range(len(shape) - (len(kinds) - e - 1), len(shape)))
    else:
        axes = list(range(len(kinds)))
    for k, ax in zip(kinds, axes):
        out.append(_item(k, shape[ax] if ax is not None else 1, rng, variant))      # one variant per tuple: same array shapes
    return tuple(out)


def _np_index(idx):
    return tuple(np.asarray(i) if isinstance(i, jax.Array) else i for i in idx)


def _has_mask(idx):
    return any(isinstance(i, jax.Array) and i.dtype == bool for i in idx)


def _make(idx, structure, x_like, explicit):
    """IndexOperator with (explicit=True) or without an explicit output structure"""
    from furax._base.indices import IndexOperator
    if explicit:
        outs = jax.tree.map(lambda l: S(np.zeros(l.shape)[_np_index(idx)].shape, l.dtype), structure)
        return IndexOperator(idx, in_structure=structure, out_structure=outs)
    return IndexOperator(idx, in_structure=structure)


def _build(idx, structure):
    """an operator for checks that are not about construction: without out_structure when that works; None when the
    only ways to build it run into a listed finding"""
    if _has_mask(idx) or F_INIT in OPEN:
        ref = np.zeros(jax.tree.leaves(structure)[0].shape)[_np_index(idx)]
        if (ref.ndim == 0 and F_SCALAR in OPEN) or (ref.ndim > 0 and ref.shape[0] == 0 and F_INIT in OPEN):
            return None
        return _make(idx, structure, None, True)
    return _make(idx, structure, None, False)


KINDS = ['k_int', 'k_slice', 'k_fullslice', 'k_ellipsis', 'k_intarray', 'k_mask']


def _family(seed, w, max_len=3, count=60):
    """index-kind tuples: the witness first, then a seeded family"""
    rng = np.random.default_rng(seed)
    fam = []
    ks = w.get('kinds')
    if isinstance(ks, list) and all(k in KINDS for k in ks) and len(ks) <= 4:
        fam.append(list(ks))
    if w.get('index_kind') in KINDS:
        fam.append([w['index_kind']])
    fam += [[k] for k in KINDS]
    fam += [['k_fullslice', 'k_int', 'k_ellipsis', 'k_intarray'], ['k_ellipsis', 'k_intarray', 'k_fullslice'],
            ['k_fullslice', 'k_ellipsis'], ['k_intarray', 'k_ellipsis', 'k_int'], ['k_fullslice', 'k_fullslice', 'k_intarray']]
    while len(fam) < count:
        n = int(rng.integers(1, max_len + 1))
        fam.append([KINDS[int(i)] for i in rng.integers(0, len(KINDS), n)])
    return fam


SHAPES = [(4,), (3, 4), (2, 3, 4), (3, 2, 2, 3)]


# ------------------------------------------------------------------------------------------ construction
def construct(w, seed, spec):
    from furax._base.indices import IndexOperator
    fails = []
    rng = np.random.default_rng(seed)
    for kinds in _family(seed, w):
        for shape in SHAPES:
            if kinds.count('k_ellipsis') > 1:
                idx = tuple(Ellipsis if k == 'k_ellipsis' else slice(None) for k in kinds)
                try:
                    IndexOperator(idx, in_structure=S(shape), out_structure=S(shape))
                    fails.append(f'two Ellipsis accepted: {kinds}')
                except ValueError:
                    pass
                except Exception as e:      # noqa: BLE001
                    fails.append(f'two Ellipsis: {type(e).__name__} instead of ValueError')
                continue
            idx = _tuple_for(kinds, shape, rng, variant=len(fails))
            if idx is None:
                continue
            ref = np.zeros(shape, np.float32)[_np_index(idx)]
            arg = idx[0] if len(idx) == 1 and rng.integers(0, 2) else idx
            # ---- without an explicit output structure
            try:
                op = IndexOperator(arg, in_structure=S(shape))
                if _has_mask(idx):
                    fails.append(f'mask index accepted without out_structure: {kinds}')
                elif op.out_structure().shape != ref.shape:
                    fails.append(f'{kinds} on {shape}: inferred out_structure {op.out_structure().shape} != {ref.shape}')
            except ValueError:
                if not _has_mask(idx):
                    fails.append(f'{kinds} on {shape}: ValueError without out_structure')
            except AttributeError as e:
                if not (F_INIT in OPEN and '_out_structure' in str(e) and not _has_mask(idx)):
                    fails.append(f'{kinds} on {shape}: AttributeError {e}')
            except Exception as e:      # noqa: BLE001
                fails.append(f'{kinds} on {shape} without out_structure: {type(e).__name__}: {str(e)[:80]}')
            # ---- with an explicit output structure
            try:
                op = IndexOperator(arg, in_structure=S(shape), out_structure=S(ref.shape))
                if op.out_structure().shape != ref.shape:
                    fails.append(f'{kinds} on {shape}: explicit out_structure not kept')
                basic = all(not (isinstance(i, jax.Array) and i.dtype != bool) for i in idx)
                if op.unique_indices != basic:
                    fails.append(f'{kinds}: unique_indices={op.unique_indices}, expected {basic}')
                if not basic:
                    op2 = IndexOperator(arg, in_structure=S(shape), out_structure=S(ref.shape), unique_indices=True)
                    if op2.unique_indices is not True:
                        fails.append(f'{kinds}: caller flag unique_indices=True not kept')
                if op.indices != (arg if isinstance(arg, tuple) else (arg,)) and not all(
                        a is b for a, b in zip(op.indices, idx)):
                    fails.append(f'{kinds}: indices not stored as given')
            except TypeError as e:
                if not (F_SCALAR in OPEN and ref.ndim == 0):
                    fails.append(f'{kinds} on {shape} with out_structure: TypeError {str(e)[:80]}')
            except AttributeError as e:
                if not (F_INIT in OPEN and '_out_structure' in str(e) and ref.ndim > 0 and ref.shape[0] == 0):
                    fails.append(f'{kinds} on {shape} with out_structure: AttributeError {e}')
            except Exception as e:      # noqa: BLE001
                fails.append(f'{kinds} on {shape} with out_structure: {type(e).__name__}: {str(e)[:80]}')
            if len(fails) > 6:
                return fails
    return fails


# ------------------------------------------------------------------------------------------ selection / scatter-add
def select(w, seed, spec):
    fails = []
    rng = np.random.default_rng(seed)
    nleaves = w.get('nleaves') if isinstance(w.get('nleaves'), int) else None
    for kinds in _family(seed, w, count=40):
        for shape in SHAPES:
            if kinds.count('k_ellipsis') > 1:
                continue
            idx = _tuple_for(kinds, shape, rng, variant=len(kinds))
            if idx is None:
                continue
            for nl in ([nleaves] if nleaves else [1, 2]):
                structure = S(shape) if nl == 1 else {'a': S(shape), 'b': S(shape), 'c': S(shape)}
                try:
                    op = _build(idx, structure)
                except Exception as e:      # noqa: BLE001
                    fails.append(f'{kinds} on {shape}: construction failed: {type(e).__name__}')
                    break
                if op is None:
                    continue
                xs = jax.tree.map(lambda l: jnp.asarray(rng.standard_normal(l.shape).astype(np.float32)), structure)
                ys = op.mv(xs)
                npidx = _np_index(idx)
                for xl, yl in zip(jax.tree.leaves(xs), jax.tree.leaves(ys)):
                    ref = np.asarray(xl)[npidx]
                    if not close(yl, ref):
                        fails.append(f'mv != x[indices] for {kinds} on {shape}')
                # transpose: accumulate into zeros
                zs = op.T.mv(ys)
                for yl, zl, xl in zip(jax.tree.leaves(ys), jax.tree.leaves(zs), jax.tree.leaves(xs)):
                    ref = np.zeros(xl.shape, np.float32)
                    np.add.at(ref, npidx, np.asarray(yl))
                    if not close(zl, ref, 1e-4):
                        fails.append(f'transpose is not the scatter-add for {kinds} on {shape}')
                if len(fails) > 6:
                    return fails
    return fails


# ------------------------------------------------------------------------------------------ indexed_axes / reduce
def _ref_axes(idx):
    n = len(idx)
    e = next((k for k, i in enumerate(idx) if i is Ellipsis), n)
    full = lambda i: isinstance(i, slice) and i == slice(None)      # noqa: E731
    return [p for p in range(e) if not full(idx[p])] + [p - n for p in range(e + 1, n) if not full(idx[p])]


def axes(w, seed, spec):
    from furax._base.core import IdentityOperator
    fails = []
    rng = np.random.default_rng(seed)
    for kinds in _family(seed, w, max_len=4, count=120):
        if kinds.count('k_ellipsis') > 1:
            continue
        for shape in SHAPES:
            idx = _tuple_for(kinds, shape, rng)
            if idx is None:
                continue
            op = _build(idx, S(shape))
            if op is None:
                continue
            got, ref = list(op.indexed_axes), _ref_axes(idx)
            if got != ref:
                fails.append(f'indexed_axes {got} != {ref} for {kinds}')
            red = op.reduce()
            if (len(ref) == 0) != isinstance(red, IdentityOperator):
                fails.append(f'reduce() of {kinds}: {type(red).__name__} with indexed axes {ref}')
            if len(fails) > 6:
                return fails
    return fails


# ------------------------------------------------------------------------------------------ rules
def _reduced_pair(op, which):
    return (op @ op.T).reduce() if which == 'PPt' else (op.T @ op).reduce()


def rules(w, seed, spec):
    """P @ P.T -> identity only when nothing is selected twice; both reduced products denote the true products"""
    from furax._base.core import IdentityOperator
    fails = []
    rng = np.random.default_rng(seed)
    for kinds in _family(seed, w, count=14):
        if kinds.count('k_ellipsis') > 1:
            continue
        for shape in SHAPES[1:3]:
            idx = _tuple_for(kinds, shape, rng)
            if idx is None:
                continue
            for flag in (None, True):
                structure = S(shape)
                try:
                    from furax._base.indices import IndexOperator
                    ref = np.zeros(shape, np.float32)[_np_index(idx)]
                    op = IndexOperator(idx, in_structure=structure, out_structure=S(ref.shape), unique_indices=flag)
                except (TypeError, AttributeError):
                    continue        # scalar / empty output structure: listed findings, reported by `construct`
                if op.out_size() == 0:
                    continue
                P = dense(op)
                twice = bool((P.sum(axis=0) > 1).any())      # some input element selected more than once
                if flag and twice:
                    continue            # an untruthful promise of the caller: outside the property
                red = _reduced_pair(op, 'PPt')
                if isinstance(red, IdentityOperator) and twice:
                    fails.append(f'P @ P.T reduced to the identity although an element is selected twice: {kinds} on {shape}')
                if not close(dense(red), P @ P.T, 1e-4):
                    fails.append(f'(P @ P.T).reduce() changes the product: {kinds} on {shape}')
                red2 = _reduced_pair(op, 'PtP')
                if not close(dense(red2), P.T @ P, 1e-4):
                    alias = _alias_present(idx, shape)
                    if not (alias and F_ALIAS in OPEN):
                        fails.append(f'(P.T @ P).reduce() changes the product: {kinds} on {shape}')
                if len(fails) > 6:
                    return fails
    return fails


def _alias_present(idx, shape):
    for pos, i in enumerate(idx):
        if isinstance(i, jax.Array) and i.dtype != bool:
            ax = _ref_axes(idx)
            v = np.asarray(i).ravel()
            # the axis this array indexes
            e = next((k for k, j in enumerate(idx) if j is Ellipsis), len(idx))
            a = pos if pos < e else pos - len(idx)
            size = shape[a]
            s = set(v.tolist())
            if any((x - size) in s for x in s if x >= 0):
                return True
            _ = ax
    return False


def _mult_case(shape, axis_pos, n_items, values, with_ellipsis, unique_flag=None):
    """P.T @ P for an integer array `values` on one axis: must reduce to the diagonal of multiplicities"""
    from furax._base.diagonal import DiagonalOperator
    from furax._base.indices import IndexOperator
    nd = len(shape)
    if with_ellipsis:
        idx = (Ellipsis, jnp.asarray(values)) + (slice(None),) * (nd - 1 - axis_pos)
    else:
        idx = (slice(None),) * axis_pos + (jnp.asarray(values),)
    ref = np.zeros(shape, np.float32)[_np_index(idx)]
    op = IndexOperator(idx, in_structure=S(shape), out_structure=S(ref.shape), unique_indices=unique_flag)
    red = (op.T @ op).reduce()
    size = shape[axis_pos]
    mult = np.zeros(size)
    for v in np.asarray(values).ravel():
        mult[int(v) % size] += 1
    expect = np.zeros(shape, np.float32) + mult.reshape((1,) * axis_pos + (size,) + (1,) * (nd - 1 - axis_pos))
    out = []
    if not isinstance(red, DiagonalOperator):
        out.append(('not-diagonal', f'P.T @ P not simplified to a diagonal operator ({type(red).__name__}) for values '
                                    f'{np.asarray(values).tolist()} on axis {axis_pos} of {shape}'))
    D = dense(red)
    P = dense(op)
    if not close(D, P.T @ P, 1e-4):
        out.append(('wrong', f'(P.T @ P).reduce() differs from the unreduced product for values '
                             f'{np.asarray(values).tolist()} on axis {axis_pos} of {shape}: diagonal '
                             f'{np.diag(D).reshape(shape).tolist()} vs {np.diag(P.T @ P).reshape(shape).tolist()}'))
    if not close(D, np.diag(expect.ravel()), 1e-4):
        out.append(('wrong', f'P.T @ P -> diagonal {np.diag(D).reshape(shape).tolist()} but multiplicities are '
                             f'{expect.tolist()} (values {np.asarray(values).tolist()}, axis {axis_pos} of {shape})'))
    return out


def _several_axes(fails):
    """several indexed axes: whatever (P.T @ P).reduce() is, it must denote P.T @ P"""
    from furax._base.indices import IndexOperator
    for shape, idx in [((3, 2), (jnp.asarray([0, 0, 2]), 1)), ((2, 3), (jnp.asarray([1, 1]), jnp.asarray([0, 2]))),
                       ((2, 2, 3), (0, Ellipsis, jnp.asarray([2, 2, 1])))]:
        ref = np.zeros(shape, np.float32)[_np_index(idx)]
        try:
            op = IndexOperator(idx, in_structure=S(shape), out_structure=S(ref.shape))
            P = dense(op)
            red = (op.T @ op).reduce()
            if not close(dense(red), P.T @ P, 1e-4):
                fails.append(f'(P.T @ P).reduce() changes the product for {len(idx)} indexed axes on {shape}')
        except Exception as e:      # noqa: BLE001
            fails.append(f'(P.T @ P).reduce() raises {type(e).__name__} for several indexed axes on {shape}: {str(e)[:80]}')


def _basic_single_axis(fails):
    """one axis indexed by an int, a slice or a mask: P.T @ P must reduce to the 0/1 diagonal of the selected positions"""
    from furax._base.diagonal import DiagonalOperator
    from furax._base.indices import IndexOperator
    mask4 = jnp.asarray([True, False, True, True])
    for shape, idx in [((4, 3), 1), ((4, 3), -1), ((4, 3), slice(1, 3)), ((4, 3), slice(None, None, 2)), ((4, 3), mask4),
                       ((4, 3), (slice(None), 2)), ((2, 4), (Ellipsis, slice(0, 2))), ((2, 4), (Ellipsis, mask4)),
                       ((3, 4, 2), (slice(None), -2)), ((5,), slice(4, None))]:
        ref = np.zeros(shape, np.float32)[_np_index(idx if isinstance(idx, tuple) else (idx,))]
        try:
            op = IndexOperator(idx, in_structure=S(shape), out_structure=S(ref.shape))
            P = dense(op)
            red = (op.T @ op).reduce()
            if F_UNIQUE not in OPEN and not isinstance(red, DiagonalOperator):
                fails.append(f'P.T @ P not simplified to a diagonal operator ({type(red).__name__}) for the single indexed axis '
                             f'{idx!r} of {shape}')
            if not close(dense(red), P.T @ P, 1e-4):
                fails.append(f'(P.T @ P).reduce() changes the product for the index {idx!r} on {shape}')
        except Exception as e:      # noqa: BLE001
            fails.append(f'(P.T @ P).reduce() raises {type(e).__name__} for the index {idx!r} on {shape}: {str(e)[:80]}')


def multiplicities(w, seed, spec):
    fails = []
    rng = np.random.default_rng(seed)
    only_alias = bool(spec.get('only_alias'))
    only_unique = bool(spec.get('only_unique'))
    if not only_alias and not only_unique:
        _several_axes(fails)
    if not only_alias:
        _basic_single_axis(fails)
    cases = []
    size_w = w.get('size') if isinstance(w.get('size'), int) and 1 <= w.get('size') <= 6 else None
    if size_w:
        cases.append(((size_w,), 0, list(range(-size_w, size_w))))
        cases.append(((size_w, 2), 0, [size_w - 1, -1, 0]))
    # multi-dimensional index arrays with more distinct values than their last axis is long
    cases += [((6,), 0, [[0, 1], [2, 3], [4, 0]]), ((2,), 0, [[0], [1]]), ((5, 2), 0, [[[0], [1]], [[2], [3]]]),
              ((2, 4), 1, [[3, 3], [1, 0], [2, 2]])]
    cases += [((2,), 0, [1, -1, 0]), ((3,), 0, [0, 0, 2]), ((4, 3), 1, [[0, 1], [1, 1]]), ((2, 3, 2), 1, [2, 2, 0, 1]),
              ((3, 2), 0, [-1, -1, 0]), ((3, 2), 0, [-1, 2, 2, -3, 0]), ((5,), 0, [4]), ((2, 2), 1, [-2, 0, 1, -1])]
    for _ in range(4):
        nd = int(rng.integers(1, 4))
        shape = tuple(int(v) for v in rng.integers(1, 5, nd))
        ax = int(rng.integers(0, nd))
        neg = bool(rng.integers(0, 2))
        vals = rng.integers(-shape[ax] if neg else 0, shape[ax], int(rng.integers(1, 7))).tolist()
        cases.append((shape, ax, vals))
    for icase, (shape, ax, vals) in enumerate(cases):
        size = shape[ax]
        flat = np.asarray(vals).ravel().tolist()
        alias = any((v - size) in flat for v in flat if v >= 0)
        distinct_positions = len({v % size for v in flat}) == len(flat)
        for ell in ((False, True) if icase < 6 else (bool(icase % 2),)):
            for flag in (None, True):
                if flag and not distinct_positions:
                    continue
                if only_alias and not alias:
                    continue
                if only_unique and not flag:
                    continue
                try:
                    res = _mult_case(shape, ax, 1, vals, ell, flag)
                except Exception as e:      # noqa: BLE001
                    res = [('error', f'(P.T @ P).reduce() raises {type(e).__name__}: {str(e)[:80]} for values '
                                     f'{np.asarray(vals).tolist()} on axis {ax} of {shape}')]
                for kind, msg in res:
                    listed = (alias and F_ALIAS in OPEN and kind == 'wrong' and not only_alias) or \
                             (flag and F_UNIQUE in OPEN and kind == 'not-diagonal' and not only_unique)
                    if only_alias and kind != 'wrong':
                        continue
                    if only_unique and kind != 'not-diagonal':
                        continue
                    if not listed:
                        fails.append(msg)
                if len(fails) > 6:
                    return fails
    return fails


# ------------------------------------------------------------------------------------------ pack / Stokes
def pack(w, seed, spec):
    from furax._base.linear import PackOperator
    from furax.landscapes import StokesPyTree
    from furax._base.core import IdentityOperator
    fails = []
    rng = np.random.default_rng(seed)
    only_generic = bool(spec.get('only_generic'))
    for shape in ([(3, 4)] if only_generic else [(5,), (3, 4), (2, 3, 2)]):
        mask = rng.integers(0, 2, shape).astype(bool)
        mask.flat[0] = True
        jm = jnp.asarray(mask)
        arr = lambda: jnp.asarray(rng.standard_normal(shape).astype(np.float32))       # noqa: E731
        trees = [('leaf', arr())]
        for st in ('I', 'QU', 'IQU', 'IQUV'):
            trees.append(('stokes', StokesPyTree.class_for(st)(*[arr() for _ in st])))
        trees += [('generic', [arr(), arr()]), ('generic', {'a': arr(), 'b': arr()})]
        for kind, x in trees:
            if only_generic != (kind == 'generic') and (only_generic or F_PACK in OPEN):
                continue
            structure = jax.tree.map(lambda l: S(l.shape, l.dtype), x)
            op = PackOperator(jm, structure)
            try:
                y = op.mv(x)
            except Exception as e:      # noqa: BLE001
                fails.append(f'PackOperator.mv on a {type(x).__name__} pytree: {type(e).__name__}: {str(e)[:60]}')
                continue
            for xl, yl in zip(jax.tree.leaves(x), jax.tree.leaves(y)):
                if not close(yl, np.asarray(xl)[mask]):
                    fails.append(f'PackOperator.mv != leaf[mask] on {type(x).__name__}')
            z = op.T.mv(y)
            for xl, zl in zip(jax.tree.leaves(x), jax.tree.leaves(z)):
                ref = np.zeros(shape, np.float32)
                ref[mask] = np.asarray(xl)[mask]
                if not close(zl, ref):
                    fails.append(f'PackOperator.T is not the scatter into zeros on {type(x).__name__}')
            red = (op @ op.T).reduce()
            if not isinstance(red, IdentityOperator):
                fails.append('pack @ pack.T not reduced to the identity')
            if kind == 'stokes':
                for idx in (jm, jnp.asarray([0, -1]), 0, slice(1, None)):
                    got = x[idx]
                    for xl, gl in zip(jax.tree.leaves(x), jax.tree.leaves(got)):
                        if not close(gl, np.asarray(xl)[np.asarray(idx) if isinstance(idx, jax.Array) else idx]):
                            fails.append(f'{type(x).__name__}[index] is not component-wise')
        if len(fails) > 6:
            break
    return fails


# ------------------------------------------------------------------------------------------ listed findings
def finding_init(w, seed, spec):
    """IndexOperator(...) without out_structure (DESIGN §5 #1)"""
    from furax._base.indices import IndexOperator
    fails = []
    for idx, shape in [(0, (2, 1, 3)), (jnp.asarray([0, 1, 1]), (2, 3)), ((slice(None), Ellipsis, 1), (2, 3, 4))]:
        try:
            op = IndexOperator(idx, in_structure=S(shape))
            ref = np.zeros(shape)[_np_index(idx if isinstance(idx, tuple) else (idx,))]
            if op.out_structure().shape != ref.shape:
                fails.append(f'inferred output structure {op.out_structure().shape} != {ref.shape}')
        except Exception as e:      # noqa: BLE001
            fails.append(f'IndexOperator({idx!r}, in_structure=S({shape})) without out_structure raises '
                         f'{type(e).__name__}: {str(e)[:90]}')
    return fails


def finding_scalar_out(w, seed, spec):
    from furax._base.indices import IndexOperator
    fails = []
    try:
        op = IndexOperator((0, 1), in_structure=S((2, 3)), out_structure=S(()))
        x = jnp.arange(6.0).reshape(2, 3)
        if not close(op.mv(x), 1.0):
            fails.append('wrong selection')
    except Exception as e:      # noqa: BLE001
        fails.append(f'IndexOperator((0, 1), in_structure=S((2, 3)), out_structure=S(())) raises {type(e).__name__}: {e}')
    return fails


def finding_alias(w, seed, spec):
    """the witnesses of the (repaired) negative-alias defect: size 2, indices [1, -1, 0] and two more"""
    fails = []
    for shape, ax, vals in [((2,), 0, [1, -1, 0]), ((3, 2), 0, [-1, 2, 2, -3, 0]), ((2, 2), 1, [-2, 0, 1, -1])]:
        try:
            fails += [msg for kind, msg in _mult_case(shape, ax, 1, vals, False, None) if kind == 'wrong']
        except Exception as e:      # noqa: BLE001
            fails.append(f'(P.T @ P).reduce() raises {type(e).__name__} for values {vals} on axis {ax} of {shape}')
    return fails


def finding_unique_pair(w, seed, spec):
    return multiplicities(w, seed, dict(spec, only_unique=True))


def finding_pack_pytree(w, seed, spec):
    return pack(w, seed, dict(spec, only_generic=True))

"""Native oracle for C01: dense(op.reduce()) == dense(op), same structures, no exception."""
import time

import numpy as np

from . import catalog as K
from .C12 import *          # noqa: F401,F403
from .C13 import *          # noqa: F401,F403
from .C15 import *          # noqa: F401,F403  (shared scenarios name their oracles there)


class _Timeout(BaseException):
    pass


def _alarm(signum, frame):
    raise _Timeout()


def check_reduce(name, op):
    import signal
    signal.signal(signal.SIGALRM, _alarm)
    signal.alarm(30)            # the property says reduce() terminates: 30 s is three orders of magnitude above normal
    try:
        red = op.reduce()
    except _Timeout:
        return f'{name}: reduce() did not terminate within 30 s'
    except Exception as e:      # noqa: BLE001
        return f'{name}: reduce() raised {type(e).__name__}: {str(e)[:100]}'
    finally:
        signal.alarm(0)
    try:
        if not K.same_structure(red.in_structure(), op.in_structure()) or \
                not K.same_structure(red.out_structure(), op.out_structure()):
            return f'{name}: reduce() changed the structures'
        a, b = K.dense(op), K.dense(red)
    except Exception as e:      # noqa: BLE001
        return f'{name}: applying the reduced operator raised {type(e).__name__}: {str(e)[:100]}'
    if not K.close(a, b):
        return f'{name}: reduce() changed the matrix (max diff {np.abs(a - b).max() if a.shape == b.shape else "shape"})'
    return None


KNOWN = ('zero-diagonal-inverse',)


def reduce_family(w, seed, spec):
    """fixed chains exercising every rule + seeded random expression trees"""
    t0 = time.time()
    budget = spec.get('budget_s', 60)
    fails = []
    cases = list(K.fixed_chains())
    g = K.Gen(seed)
    cases += g.expressions(spec.get('n', 40), depth=2)
    for name, op in cases:
        r = check_reduce(name, op)
        if r:
            fails.append(r)
        if len(fails) >= 5 or time.time() - t0 > budget:
            break
    return fails


def zero_diagonal_inverse(w, seed, spec):
    """listed finding: D.I @ D reduces to the identity although D has zero entries (pseudo-inverse)"""
    import jax.numpy as jnp
    from furax._base.core import CompositionOperator
    from furax._base.diagonal import DiagonalOperator
    s = K.S((2,))
    D = DiagonalOperator(jnp.asarray([0., 2.], jnp.float32), in_structure=s)
    fails = []
    for name, op in (('C[D.I,D]', CompositionOperator([D.I, D])), ('C[D,D.I]', CompositionOperator([D, D.I]))):
        r = check_reduce(name, op)
        if r:
            fails.append(r)
    return fails

"""Native oracles for C11: an independent NumPy formula (transpose + expand_dims + broadcasting) is the reference for
BroadcastDiagonalOperator / DiagonalOperator; np.diag of the broadcast values for as_matrix; the Moore-Penrose
identities for the inverse's values."""
import itertools

import jax
import jax.numpy as jnp
import numpy as np

from .common import S, close, dense, rand_tree


def expand(spec, m):
    if isinstance(spec, (int, np.integer)):
        spec = int(spec)
        return tuple(range(spec, spec + m)) if spec >= 0 else tuple(range(spec - m + 1, spec + 1))
    return tuple(int(a) for a in spec)


def reference(values, spec, x, strict=False):
    """('error', why) or ('ok', array): values laid along the destination axes, times x, NumPy broadcasting"""
    values, x = np.asarray(values), np.asarray(x)
    m, r = values.ndim, x.ndim
    a = expand(spec, m)
    if len(a) != m:
        return 'skip', 'axes count differs from values rank'
    na = [ak if ak >= 0 else r + ak for ak in a]
    if len(set(na)) != len(na):
        return 'error', 'duplicated axes'
    L = max(0, -min(na))
    R = max(0, max(na) - r + 1)
    N = L + r + R
    dest = [ak + L for ak in na]
    v = np.transpose(values, np.argsort(dest))
    v = np.expand_dims(v, tuple(i for i in range(N) if i not in dest))
    xx = np.expand_dims(x, tuple(range(L)) + tuple(range(L + r, N)))
    try:
        out = v * xx
    except ValueError:
        return 'error', 'not broadcastable'
    if strict and out.shape != x.shape:
        return 'error', 'shape would change'
    return 'ok', out


def _apply(cls, values, spec, shapes, rng):
    """run the real operator on a list-pytree with the given leaf shapes; ('error', type) or ('ok', [arrays], xs)"""
    structure = [S(s) for s in shapes]
    xs = [jnp.asarray(rng.standard_normal(s), dtype=jnp.float32) for s in shapes]
    try:
        op = cls(jnp.asarray(values, dtype=jnp.float32), axis_destination=spec, in_structure=structure)
    except ValueError:
        return 'error', 'ValueError', xs
    except Exception as e:      # noqa: BLE001
        return 'error', type(e).__name__, xs
    return 'ok', [np.asarray(y) for y in op(xs)], xs


def _check_case(cls, strict, vshape, spec, shapes, rng):
    values = rng.standard_normal(vshape)
    got = _apply(cls, values, spec, shapes, rng)
    xs = got[2]
    refs = [reference(values, spec, np.asarray(x), strict) for x in xs]
    if any(r[0] == 'skip' for r in refs):
        return None
    name = cls.__name__
    desc = f'{name}(values{tuple(vshape)}, axis_destination={spec}) on leaves {shapes}'
    if any(r[0] == 'error' for r in refs):
        if got[0] == 'ok':
            why = [r[1] for r in refs if r[0] == 'error'][0]
            return f'{desc}: accepted although {why}'
        if got[1] != 'ValueError':
            return f'{desc}: raises {got[1]} instead of ValueError'
        return None
    if got[0] == 'error':
        return f'{desc}: refused with {got[1]} although the specification is legal'
    for y, r, x in zip(got[1], refs, xs):
        if not close(y, r[1], 1e-4):
            return f'{desc}: wrong result for leaf {np.asarray(x).shape}: got shape {y.shape}, expected {r[1].shape}'
    return None


def _sizes(rng, n, ones=True):
    return tuple(int(v) for v in rng.choice([1, 2, 3] if ones else [2, 3], n))


def mv(w, seed, spec):
    from furax._base.diagonal import BroadcastDiagonalOperator, DiagonalOperator
    rng = np.random.default_rng(seed)
    fails = []
    cases = []
    if isinstance(w.get('leaf_rank'), int) and isinstance(w.get('values_rank'), int) and 'axis_destination' in w:
        vs = w.get('values_shape')
        xs = w.get('x_shape')
        ad = w['axis_destination']
        ad = tuple(ad) if isinstance(ad, list) else ad
        for _ in range(6):
            vshape = tuple(vs) if isinstance(vs, list) and all(isinstance(d, int) and 0 < d < 6 for d in vs) and _ == 0 \
                else _sizes(rng, w['values_rank'])
            xshape = tuple(xs) if isinstance(xs, list) and all(isinstance(d, int) and 0 < d < 6 for d in xs) and _ == 0 \
                else _sizes(rng, w['leaf_rank'])
            # sizes that make the specification legal: give the values the sizes of the axes they are laid on
            cases.append((bool(w.get('strict')), vshape, ad, [xshape]))
            a = expand(ad, len(vshape))
            na = [ak if ak >= 0 else len(xshape) + ak for ak in a]
            if len(set(na)) == len(na) and len(a) == len(vshape):
                legal = tuple(xshape[ak] if 0 <= ak < len(xshape) else 2 for ak in na)
                cases.append((bool(w.get('strict')), legal, ad, [xshape]))
    for _ in range(160):
        r = int(rng.integers(1, 4))
        m = int(rng.integers(1, 3))
        xshape = _sizes(rng, r)
        form = int(rng.integers(3))
        if form == 0:
            ad = int(rng.integers(-r - 1, r + 1))
        else:
            ad = tuple(int(v) for v in rng.choice(np.arange(-r - 1, r + 1), m, replace=False))
            if form == 2:
                ad = list(ad)
        a = expand(ad, m)
        na = [ak if ak >= 0 else r + ak for ak in a]
        if rng.integers(4) and len(set(na)) == len(na):
            vshape = tuple(xshape[ak] if 0 <= ak < r else int(rng.choice([1, 2, 3])) for ak in na)   # mostly legal
        else:
            vshape = _sizes(rng, m)
        cases.append((bool(rng.integers(2)), vshape, ad, [xshape]))
    # pytrees whose leaves have different ranks
    for ad in (0, -1, (0,), (-1,)):
        for strict in (False, True):
            cases.append((strict, (3,), ad, [(3,), (3, 3), (3, 2, 3)]))
    cases.append((False, (2, 3), -1, [(3,), (2, 3), (4, 2, 3)]))
    cases.append((False, (2, 3), 0, [(2,), (2, 3), (2, 3, 4)]))
    for strict, vshape, ad, shapes in cases:
        cls = DiagonalOperator if strict else BroadcastDiagonalOperator
        m_ = _check_case(cls, strict, vshape, ad, shapes, rng)
        if m_:
            fails.append(m_)
            if len(fails) > 5:
                break
    return fails


def constructor(w, seed, spec):
    from furax._base.diagonal import BroadcastDiagonalOperator as B
    fails = []
    x = S((2, 3, 4))
    for m, ad, expect in [(2, 0, (0, 1)), (2, 1, (1, 2)), (2, -1, (-2, -1)), (3, -1, (-3, -2, -1)), (2, -2, (-3, -2)),
                          (1, -3, (-3,)), (2, [1, 0], (1, 0)), (2, (2, 0), (2, 0)), (1, 5, (5,))]:
        vals = jnp.ones((2, 3, 4)[:m] if ad in (0,) else tuple([1] * m))
        try:
            op = B(vals, axis_destination=ad, in_structure=x)
        except Exception as e:      # noqa: BLE001
            fails.append(f'axis_destination={ad} with {m}-d values refused ({type(e).__name__})')
            continue
        if op.axis_destination != expect or not isinstance(op.axis_destination, tuple):
            fails.append(f'axis_destination={ad} with {m}-d values stored as {op.axis_destination!r}, expected {expect}')
    if isinstance(w.get('axis'), int) and isinstance(w.get('values_shape'), list) and 0 < len(w['values_shape']) < 5:
        m, a = len(w['values_shape']), w['axis']
        try:
            op = B(jnp.ones((1,) * m), axis_destination=a, in_structure=S((1,) * (abs(a) + m + 1)))
            if op.axis_destination != expand(a, m):
                fails.append(f'axis_destination={a} with {m}-d values stored as {op.axis_destination!r}')
        except Exception as e:      # noqa: BLE001
            fails.append(f'axis_destination={a} with {m}-d values: {type(e).__name__}')
    for bad, why in [(jnp.float32(2.0), 'scalar values'), ({'a': jnp.ones(3)}, 'pytree-valued values'),
                     ([jnp.ones(3), jnp.ones(3)], 'pytree-valued values')]:
        for ad in (0, -1, (0,), (), [1]):
            try:
                B(bad, axis_destination=ad, in_structure=S((3, 2)))
                fails.append(f'{why} accepted (axis_destination={ad})')
            except ValueError:
                pass
            except Exception as e:      # noqa: BLE001
                fails.append(f'{why} (axis_destination={ad}): {type(e).__name__} instead of ValueError')
    for ad, shape, why in [((0, -2), (2, 2), 'duplicated axes after normalisation'), ((1, 1), (2, 2), 'duplicated axes')]:
        try:
            B(jnp.ones((2, 2)), axis_destination=ad, in_structure=S(shape))
            fails.append(f'{why} accepted: {ad}')
        except ValueError:
            pass
    try:
        B(jnp.ones(3), axis_destination=0, in_structure=S((2, 5)))
        fails.append('non-broadcastable shapes accepted')
    except ValueError:
        pass
    return fails


def axes(w, seed, spec):
    """the helpers on the real object against their formulas"""
    from furax._base.diagonal import BroadcastDiagonalOperator as B
    rng = np.random.default_rng(seed)
    fails = []
    cases = []
    if isinstance(w.get('axes'), list) and 0 < len(w['axes']) <= 4 and all(isinstance(a, int) for a in w['axes']):
        r = w.get('leaf_ndim')
        if not isinstance(r, int):
            r = len(w['leaf_shape']) if isinstance(w.get('leaf_shape'), list) else 3
        if 0 <= r <= 5:
            cases.append((tuple(w['axes']), r))
    for _ in range(300):
        r = int(rng.integers(0, 5))
        m = int(rng.integers(1, 4))
        cases.append((tuple(int(v) for v in rng.integers(-r - 2, r + 2, m)), r))
    for ad, r in cases:
        m = len(ad)
        op = object.__new__(B)
        object.__setattr__(op, 'axis_destination', ad)
        object.__setattr__(op, '_diagonal', jnp.arange(float(np.prod(range(2, 2 + m)))).reshape(tuple(range(2, 2 + m))))
        shape = tuple(range(3, 3 + r))
        na = tuple(a if a >= 0 else r + a for a in ad)
        dup = len(set(na)) != len(na)
        try:
            got = op._normalize_axes(shape)
            if dup:
                fails.append(f'_normalize_axes: duplicated {ad} for rank {r} accepted')
            elif tuple(got) != na:
                fails.append(f'_normalize_axes({ad}) for rank {r} = {got}, expected {na}')
        except ValueError:
            if not dup:
                fails.append(f'_normalize_axes({ad}) for rank {r} refused')
        if dup:
            continue
        L, R = max(0, -min(na)), max(0, max(na) - r + 1)
        if L + r + R < m:
            continue
        try:
            rd = op._reshape_diagonal(na, r)
        except Exception as e:      # noqa: BLE001
            fails.append(f'_reshape_diagonal({na}, {r}): {type(e).__name__}')
            continue
        exp = [1] * (L + r + R)
        for k, a in enumerate(na):
            exp[a + L] = 2 + k
        if tuple(rd.shape) != tuple(exp):
            fails.append(f'_reshape_diagonal({na}, {r}).shape = {tuple(rd.shape)}, expected {tuple(exp)}')
        else:
            ref = np.expand_dims(np.transpose(np.asarray(op._diagonal), np.argsort([a + L for a in na])),
                                 tuple(i for i in range(L + r + R) if i not in [a + L for a in na]))
            if not close(rd, ref):
                fails.append(f'_reshape_diagonal({na}, {r}): values laid on the wrong axes')
        leaf = jnp.zeros(shape)
        rl = op._reshape_input_leaf(na, leaf)
        if tuple(rl.shape) != shape + (1,) * R:
            fails.append(f'_reshape_input_leaf({na}) on rank {r}: shape {tuple(rl.shape)}, expected {shape + (1,) * R}')
        if len(fails) > 5:
            break
    return fails


def strict(w, seed, spec):
    """DiagonalOperator raises ValueError iff the broadcast shape differs from the input shape"""
    from furax._base.diagonal import BroadcastDiagonalOperator, DiagonalOperator
    fails = []
    shapes = [(), (1,), (2,), (3,), (1, 3), (2, 3), (2, 1), (3, 1), (2, 3, 1), (1, 1)]
    cases = list(itertools.product(shapes, shapes))
    for name in ('diagonal_shape', 'leaf_shape'):
        if not (isinstance(w.get(name), list) and len(w[name]) <= 4 and all(isinstance(d, int) and 0 < d < 6 for d in w[name])):
            break
    else:
        cases.insert(0, (tuple(w['diagonal_shape']), tuple(w['leaf_shape'])))
    for d, x in cases:
        try:
            b = np.broadcast_shapes(d, x)
        except ValueError:
            b = None
        for cls, inp in ((BroadcastDiagonalOperator, x), (DiagonalOperator, x), (DiagonalOperator, b)):
            if inp is None:
                continue
            op = object.__new__(cls)
            expect_error = b is None or (cls is DiagonalOperator and tuple(b) != tuple(inp))
            try:
                op._check_leaf_shapes(d, x, inp)
                if expect_error:
                    fails.append(f'{cls.__name__}._check_leaf_shapes({d}, {x}, {inp}) accepted')
            except ValueError:
                if not expect_error:
                    fails.append(f'{cls.__name__}._check_leaf_shapes({d}, {x}, {inp}) refused')
        if len(fails) > 5:
            break
    return fails


def as_matrix(w, seed, spec):
    from furax._base.diagonal import DiagonalOperator
    rng = np.random.default_rng(seed)
    fails = []
    for vshape, ad, shapes in [((3,), 0, [(3,), (3, 2)]), ((3,), -1, [(3,), (2, 3)]), ((2, 3), (0, 1), [(2, 3), (2, 3, 2)]),
                               ((3, 2), (1, 0), [(2, 3)]), ((1, 3), (0, -1), [(2, 3), (4, 3)]), ((2,), 1, [(3, 2, 2)]),
                               # three and more value dimensions: permutations that are not their own inverse
                               ((3, 4, 2), (1, 2, 0), [(2, 3, 4)]), ((4, 2, 3), (2, 0, 1), [(2, 3, 4)]),
                               ((3, 4, 2), (-2, -1, -3), [(2, 3, 4)]), ((3, 3, 3), (2, 3, 1), [(2, 3, 3, 3)]),
                               ((2, 3, 2), (-1, 0, 2), [(3, 5, 2, 2)])]:
        values = rng.standard_normal(vshape).astype(np.float32)
        structure = [S(s) for s in shapes]
        op = DiagonalOperator(jnp.asarray(values), axis_destination=ad, in_structure=structure)
        m = np.asarray(op.as_matrix())
        blocks = []
        for s in shapes:
            st, ref = reference(values, ad, np.ones(s, np.float32), True)
            blocks.append(np.broadcast_to(ref, s).ravel())
        expect = np.diag(np.concatenate(blocks))
        if not close(m, expect, 1e-5):
            fails.append(f'DiagonalOperator(values{vshape}, {ad}).as_matrix() on {shapes} is not diag of the broadcast values')
        if not close(m, dense(op), 1e-5):
            fails.append(f'DiagonalOperator(values{vshape}, {ad}).as_matrix() differs from the generic dense form')
    return fails


def inverse(w, seed, spec):
    from furax._base.diagonal import DiagonalOperator
    fails = []
    ds = [np.array([0.0, 2.0, -4.0, 0.5], np.float32), np.array([[0.0, 1.0], [3.0, 0.0]], np.float32), np.array([2.0, 5.0], np.float32)]
    if isinstance(w.get('d'), (int, float)):
        ds.insert(0, np.array([float(w['d']), 0.0, 1.0], np.float32))
    for d in ds:
        op = DiagonalOperator(jnp.asarray(d), axis_destination=tuple(range(d.ndim)), in_structure=S(d.shape))
        v = np.asarray(op.I.diagonal)
        if not np.all(np.isfinite(v)):
            fails.append(f'inverse values of {d.tolist()} are not finite')
            continue
        with np.errstate(divide='ignore'):
            ref = np.where(d != 0, 1 / d, 0)
        if not close(v, ref) or not close(d * v * d, d) or not close(v * d * v, v):
            fails.append(f'inverse values of {d.tolist()} are {v.tolist()}: not the Moore-Penrose inverse entries')
    return fails


def _guard(fn):
    def run(w, seed, spec):
        try:
            return fn(w, seed, spec)
        except Exception as e:          # noqa: BLE001  an exception of the code under test is a failure of the property
            return [f'{fn.__name__}: the operator raises {type(e).__name__}: {e}'[:300]]
    run.__name__ = fn.__name__
    return run


mv, constructor, axes, strict, as_matrix, inverse = (_guard(f) for f in (mv, constructor, axes, strict, as_matrix, inverse))

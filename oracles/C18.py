"""Native oracles for C18: flatten/unflatten round trips of landscapes and operators, closure-jit and
equinox.filter_jit against eager application for instances of every operator class."""
import atexit
import os
import shutil
import tempfile
import warnings

import equinox
import jax
import jax.numpy as jnp
import numpy as np

from .common import S, rand_tree

warnings.filterwarnings('ignore')


# ---------------------------------------------------------------------------------------- landscapes
def _landscape_instances(cls_name, w, seed):
    """instances with the default dtype (numpy.float64), explicit float64 and explicit float32"""
    from furax import landscapes as L
    stokes_all = ['IQU', 'QU', 'I', 'IQUV']
    st = w.get('stokes') if w.get('stokes') in stokes_all else 'IQU'
    nsides = [w['nside']] if isinstance(w.get('nside'), int) and 1 <= w['nside'] <= 64 else []
    nsides += [1, 2]
    dtypes = [(), (np.float64,), (np.float32,)]          # () = the constructor's default
    if w.get('dtype_default') == 1:
        dtypes = [()] + dtypes[1:]
    out = []
    if cls_name == 'HealpixLandscape':
        for n in nsides:
            for s in [st] + stokes_all[:2]:
                for dt in dtypes:
                    out.append(L.HealpixLandscape(n, s, *dt))
    elif cls_name == 'FrequencyLandscape':
        for n in nsides:
            for dt in dtypes:
                out.append(L.FrequencyLandscape(n, jnp.array([30., 40., 100.]), st, *dt))
    else:
        base = getattr(L, cls_name)

        @jax.tree_util.register_pytree_node_class
        class Concrete(base):                  # a user subclass implementing only the abstract methods
            def normal(self, key):
                raise NotImplementedError

            def uniform(self, key, low=0.0, high=1.0):
                raise NotImplementedError

            def full(self, fill_value):
                raise NotImplementedError

            def world2pixel(self, theta, phi):
                raise NotImplementedError
        shapes = [(4,), (2, 3)]
        if isinstance(w.get('shape'), list) and all(isinstance(v, int) and 0 <= v < 50 for v in w['shape']):
            shapes.insert(0, tuple(w['shape']))
        for sh in shapes:
            for dt in dtypes:
                if cls_name == 'Landscape':
                    out.append(Concrete(sh, *dt))
                else:
                    out.append(Concrete(sh, st, *dt))
                    out.append(Concrete(pixel_shape=sh, stokes=st, **({'dtype': dt[0]} if dt else {})))
    return out


def _same_value(a, b):
    if isinstance(a, (jax.Array, np.ndarray)) or isinstance(b, (jax.Array, np.ndarray)):
        return np.shape(a) == np.shape(b) and bool(np.all(np.asarray(a) == np.asarray(b)))
    return a == b


def _same_dtype(a, b):
    try:
        return np.dtype(a) == np.dtype(b)
    except TypeError:
        return a == b


def _roundtrip_once(cls_name, w, seed, mode, fails):
    for obj in _landscape_instances(cls_name, w, seed):
        name = type(obj).__mro__[1].__name__ if type(obj).__name__ == 'Concrete' else type(obj).__name__
        name = f'{name}(dtype={np.dtype(obj.dtype).name}) [64-bit mode {mode}]'
        try:
            leaves, treedef = jax.tree.flatten(obj)
            new = jax.tree.unflatten(treedef, leaves)
        except Exception as e:      # noqa: BLE001
            fails.append(f'{name}: flatten/unflatten raises {type(e).__name__}: {str(e)[:100]}')
            continue
        if type(new) is not type(obj):
            fails.append(f'{name}: round trip changes the class')
        for k in sorted(set(vars(obj)) | set(vars(new))):
            a, b = vars(obj).get(k, '<missing>'), vars(new).get(k, '<missing>')
            same = _same_dtype(a, b) if k == 'dtype' else _same_value(a, b)
            if not same:
                fails.append(f'{name}: attribute {k} differs after the round trip: {a!r} -> {b!r}')
        if hasattr(obj, 'structure'):
            try:
                if obj.structure != new.structure:
                    fails.append(f'{name}: .structure differs after the round trip: {obj.structure} -> {new.structure}')
            except Exception as e:      # noqa: BLE001
                fails.append(f'{name}: .structure after the round trip: {type(e).__name__}')
        if len(fails) > 4:
            break


def landscape_roundtrip(w, seed, spec):
    """flatten/unflatten every landscape class, default / float64 / float32 dtype, with 64-bit mode off and on"""
    fails: list = []
    before = bool(jax.config.jax_enable_x64)
    modes = [before, not before]
    if isinstance(w.get('x64'), bool):
        modes = [w['x64'], not w['x64']]
    try:
        for mode in modes:
            jax.config.update('jax_enable_x64', mode)
            _roundtrip_once(spec.get('cls', 'HealpixLandscape'), w, seed, 'on' if mode else 'off', fails)
            if len(fails) > 4:
                break
    finally:
        jax.config.update('jax_enable_x64', before)
    return fails[:6]


def healpix_roundtrip(w, seed, spec):
    return landscape_roundtrip(w, seed, dict(spec, cls='HealpixLandscape'))


def frequency_roundtrip(w, seed, spec):
    return landscape_roundtrip(w, seed, dict(spec, cls='FrequencyLandscape'))


def configstate_roundtrip(w, seed, spec):
    import lineax as lx
    from furax._base.config import ConfigState
    fails = []
    for c in (ConfigState(), ConfigState(solver=lx.CG(rtol=1e-3, atol=1e-3), solver_throw=True, solver_options={'a': 1})):
        children, aux = c.tree_flatten()
        try:
            new = ConfigState.tree_unflatten(aux, children)
        except Exception as e:      # noqa: BLE001
            fails.append(f'ConfigState.tree_unflatten raises {type(e).__name__}')
            continue
        for f in ('solver', 'solver_throw', 'solver_options', 'solver_callback'):
            a, b = getattr(c, f), getattr(new, f)
            if type(a) is not type(b) or not (a is b or a == b):
                fails.append(f'ConfigState.{f} differs after tree_flatten/tree_unflatten: {type(a).__name__} -> {type(b).__name__}')
    return fails[:4]


# ---------------------------------------------------------------------------------------- operators
def _toast_file(seed):
    import scipy.sparse as sp
    rng = np.random.default_rng(seed)
    m = sp.random(6, 6, density=0.5, random_state=np.random.RandomState(seed), format='csr', dtype=np.float32)
    m = m + sp.identity(6, dtype=np.float32, format='csr') * float(rng.uniform(1, 2))
    m = m.tocsr()
    d = tempfile.mkdtemp(prefix='c18-')
    atexit.register(shutil.rmtree, d, True)
    path = os.path.join(d, 'obs.npz')
    np.savez(path, format='csr', data=m.data.astype(np.float32), indices=m.indices, indptr=m.indptr, shape=np.array(m.shape))
    return path


def instances(seed=0, only=None):
    """(class name, operator, has_mask) — one (two with different parameters when seed differs) instance per class"""
    from furax._base import axes, blocks, core, dense, diagonal, indices, linear
    from furax.landscapes import StokesIQUPyTree
    from furax.operators import hwp, polarizers, qu_rotations, toeplitz
    from furax.toast import obs_matrix
    rng = np.random.default_rng(seed)
    r = lambda *sh: jnp.asarray(rng.uniform(0.5, 1.5, sh).astype(np.float32))     # noqa: E731
    s23 = S((2, 3))
    s3 = S((3,))
    st = StokesIQUPyTree.structure_for((4,), np.float32)
    D = lambda: diagonal.DiagonalOperator(r(3), in_structure=s23)       # noqa: E731
    spd = jnp.asarray(np.array([[2., 1, 0], [1, 3, 1], [0, 1, 4]], np.float32) * float(rng.uniform(1, 2)))
    table = {
        'AdditionOperator': lambda: (D() + D(), False),
        'CompositionOperator': lambda: (D() @ dense.DenseBlockDiagonalOperator(r(2, 2), s23), False),
        'TransposeOperator': lambda: (core.TransposeOperator(dense.DenseBlockDiagonalOperator(r(4, 2), s23) @ D()), False),
        'InverseOperator': lambda: (core.InverseOperator(dense.DenseBlockDiagonalOperator(spd, s3, 'ij,j->i')), False),
        'IdentityOperator': lambda: (core.IdentityOperator(s23), False),
        'HomothetyOperator': lambda: (core.HomothetyOperator(-r() if seed % 2 else r(), s23), False),
        'BroadcastDiagonalOperator': lambda: (diagonal.BroadcastDiagonalOperator(r(4, 3), in_structure=s3), False),
        'DiagonalOperator': lambda: (D(), False),
        'DiagonalInverseOperator': lambda: (D().I, False),
        'DenseBlockDiagonalOperator': lambda: (dense.DenseBlockDiagonalOperator(r(4, 2), s23), False),
        'IndexOperator': lambda: (indices.IndexOperator((slice(None), jnp.array([2, 0, 2])), in_structure=s23,
                                                        out_structure=s23), False),
        'IndexOperator(mask)': lambda: (indices.IndexOperator(jnp.array([True, False, True]), in_structure=s3,
                                                              out_structure=S((2,))), True),
        'PackOperator': lambda: (linear.PackOperator(jnp.array([True, False, True]), s3), True),
        'MoveAxisOperator': lambda: (axes.MoveAxisOperator(0, 1, in_structure=s23), False),
        'RavelOperator': lambda: (axes.RavelOperator(in_structure=s23), False),
        'ReshapeOperator': lambda: (axes.ReshapeOperator((3, 2), in_structure=s23), False),
        'ReshapeTransposeOperator': lambda: (axes.ReshapeOperator((3, 2), in_structure=s23).T, False),
        'BlockRowOperator': lambda: (blocks.BlockRowOperator([D(), D()]), False),
        'BlockDiagonalOperator': lambda: (blocks.BlockDiagonalOperator({'a': D(), 'b': core.HomothetyOperator(r(), s3)}), False),
        'BlockColumnOperator': lambda: (blocks.BlockColumnOperator([D(), D()]), False),
        'HWPOperator': lambda: (hwp.HWPOperator(st), False),
        'LinearPolarizerOperator': lambda: (polarizers.LinearPolarizerOperator(st), False),
        'QURotationOperator': lambda: (qu_rotations.QURotationOperator(r(4), st), False),
        'QURotationTransposeOperator': lambda: (qu_rotations.QURotationOperator(r(4), st).T, False),
        'ToastObservationMatrixOperator': lambda: (obs_matrix.ToastObservationMatrixOperator(_toast_file(seed)), False),
        'ToastObservationMatrixTransposeOperator': lambda: (obs_matrix.ToastObservationMatrixOperator(_toast_file(seed)).T, False),
    }
    for m in toeplitz.SymmetricBandToeplitzOperator.METHODS:
        table[f'SymmetricBandToeplitzOperator({m})'] = (lambda m=m: (toeplitz.SymmetricBandToeplitzOperator(
            r(3), S((2, 16), jnp.float32), method=m), False))
    for name, make in table.items():
        if only and not name.startswith(only):
            continue
        try:
            op, mask = make()
        except Exception as e:      # noqa: BLE001
            yield name, e, None
            continue
        yield name, op, mask


def _close(a, b):
    la, lb = jax.tree.leaves(a), jax.tree.leaves(b)
    if jax.tree.structure(a) != jax.tree.structure(b) or len(la) != len(lb):
        return 'different tree structures'
    for u, v in zip(la, lb):
        u, v = np.asarray(u), np.asarray(v)
        if u.shape != v.shape:
            return f'shapes {u.shape} / {v.shape}'
        if u.dtype != v.dtype:
            return f'dtypes {u.dtype} / {v.dtype}'
        if not np.allclose(u, v, rtol=2e-4, atol=2e-4):
            return 'values'
    return None


def _check_operator(name, op, op2, mask, fails, x64_note=''):
    x = rand_tree(op.in_structure(), 1)
    try:
        eager = op.mv(x)
    except Exception as e:      # noqa: BLE001
        fails.append(f'{name}: eager application raises {type(e).__name__}: {str(e)[:80]}')
        return

    def attempt(what, f, ref):
        try:
            d = _close(f(), ref)
        except Exception as e:      # noqa: BLE001
            fails.append(f'{name}: {what} raises {type(e).__name__}: {str(e)[:90]}')
            return
        if d:
            fails.append(f'{name}: {what} differs from eager application ({d})')
    attempt('jit over a closure', lambda: jax.jit(lambda v: op.mv(v))(x), eager)
    attempt('flatten/unflatten round trip', lambda: (lambda l, t: jax.tree.unflatten(t, l).mv(x))(*jax.tree.flatten(op)), eager)
    try:
        l, t = jax.tree.flatten(op)
        new = jax.tree.unflatten(t, l)
        if jax.tree.structure(new.in_structure()) != jax.tree.structure(op.in_structure()) or \
                new.in_structure() != op.in_structure() or new.out_structure() != op.out_structure():
            fails.append(f'{name}: structures differ after flatten/unflatten')
    except Exception as e:      # noqa: BLE001
        fails.append(f'{name}: structures after round trip: {type(e).__name__}')
    if not mask:
        f = equinox.filter_jit(lambda o, v: o.mv(v))
        attempt('filtering jit with the operator as argument', lambda: f(op, x), eager)
        if op2 is not None:
            # a second instance of the same class through the same jitted function (needs comparable metadata)
            try:
                e2 = op2.mv(x)
            except Exception:       # noqa: BLE001
                return
            attempt('filtering jit, second instance of the class', lambda: f(op2, x), e2)


def _traced_first(name, op, twin, fails):
    """the result must not depend on the ORDER of uses either: the first application of this very instance happens under
    a trace (jit over a closure), then it is applied eagerly, transposed under jit, and traced again with another dtype —
    state leaked from the first trace (a cached tracer) shows here and nowhere else"""
    if isinstance(twin, Exception) or twin is None:
        return
    x = rand_tree(op.in_structure(), 1)
    try:
        ref = twin.mv(x)
    except Exception:       # noqa: BLE001
        return
    steps = [('jit over a closure as FIRST use', lambda: jax.jit(lambda v: op.mv(v))(x), ref),
             ('eager application after a traced first use', lambda: op.mv(x), ref)]
    try:
        y = rand_tree(op.out_structure(), 2)
        tref = twin.T.mv(y)
        steps.append(('jit of the transpose after a traced first use', lambda: jax.jit(lambda v: op.T.mv(v))(y), tref))
    except Exception:       # noqa: BLE001
        pass
    for what, f, r in steps:
        try:
            d = _close(f(), r)
        except Exception as e:      # noqa: BLE001
            fails.append(f'{name}: {what} raises {type(e).__name__}: {str(e)[:90]}')
            return
        if d:
            fails.append(f'{name}: {what} differs from the eager application of a fresh instance ({d})')


def jit_eager(w, seed, spec):
    fails = []
    only = spec.get('cls')
    second = dict((n, o) for n, o, _ in instances(seed + 1, only))
    third = dict((n, o) for n, o, _ in instances(seed, only))            # untouched twins: eager reference for _traced_first
    done = 0
    for name, op, mask in instances(seed, only):
        if isinstance(op, Exception):
            fails.append(f'{name}: cannot be built: {type(op).__name__}: {str(op)[:80]}')
            continue
        _traced_first(name, op, third.get(name), fails)
        o2 = second.get(name)
        _check_operator(name, op, None if isinstance(o2, Exception) else o2, mask, fails)
        done += 1
        if len(fails) > 5:
            break
    if only and done == 0 and not fails:
        return jit_eager(w, seed, {})
    return fails[:8]


def discipline(w, seed, spec):
    """declaration discipline, observed: two instances of every class through one filtering jit"""
    return jit_eager(w, seed, spec)

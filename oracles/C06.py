"""Native oracle for C06: inverses invert.

Checked directly against real furax: A.I(A(x)) == x == A(A.I(x)) and dense(A.I.I) == dense(A) for every closed form
(non-zero scalars of both signs, diagonals, block diagonals of invertible blocks in nested containers, orthogonal
operators, axis permutations); Moore-Penrose identities and finiteness for diagonals with zero entries; the lazy
solver inverse on small SPD operators to 1e-4, its dense form against numpy.linalg.inv, refusal of non-square
operators, and the capture of the solver configuration at creation.  Witness first, then a seeded family."""
import time

import jax
import jax.numpy as jnp
import lineax as lx
import numpy as np

from . import catalog as K
from .C10 import block_family        # noqa: F401  (BlockDiagonalOperator.inverse scenario shared with C10)
from furax import Config
from furax._base.axes import MoveAxisOperator
from furax._base.blocks import BlockDiagonalOperator
from furax._base.core import (AbstractLazyInverseOperator, CompositionOperator, HomothetyOperator, IdentityOperator,
                              InverseOperator)
from furax._base.dense import DenseBlockDiagonalOperator
from furax._base.diagonal import DiagonalInverseOperator, DiagonalOperator
from furax.landscapes import StokesIQUPyTree
from furax.operators.qu_rotations import QURotationOperator

F32 = jnp.float32


def rand_like(structure, rng):
    lv, td = jax.tree.flatten(structure)
    return jax.tree.unflatten(td, [jnp.asarray(rng.standard_normal(l.shape), l.dtype) for l in lv])


def check_closed_form(name, A, rng, tol=1e-4):
    try:
        Ai = A.I
    except Exception as e:      # noqa: BLE001
        return f'{name}: .I raised {type(e).__name__}: {str(e)[:80]}'
    if isinstance(Ai, InverseOperator):
        return f'{name}: no closed form was used (.I is the lazy solver inverse)'
    if not K.same_structure(Ai.in_structure(), A.out_structure()) or not K.same_structure(Ai.out_structure(), A.in_structure()):
        return f'{name}: structures of the inverse are not those of the operator, swapped'
    for _ in range(2):
        x = rand_like(A.in_structure(), rng)
        y = rand_like(A.out_structure(), rng)
        try:
            back = Ai(A(x))
            forth = A(Ai(y))
        except Exception as e:      # noqa: BLE001
            return f'{name}: applying the inverse raised {type(e).__name__}: {str(e)[:80]}'
        if not K.close(K.flat(back), K.flat(x), tol) or jax.tree.structure(back) != jax.tree.structure(x):
            return f'{name}: A.I(A(x)) != x'
        if not K.close(K.flat(forth), K.flat(y), tol) or jax.tree.structure(forth) != jax.tree.structure(y):
            return f'{name}: A(A.I(y)) != y'
    try:
        if not K.close(K.dense(Ai.I), K.dense(A), tol):
            return f'{name}: A.I.I does not denote A'
        if not K.close(K.dense(Ai) @ K.dense(A), np.eye(K.dense(A).shape[1]), 1e-3):
            return f'{name}: dense(A.I) @ dense(A) != identity'
    except Exception as e:      # noqa: BLE001
        return f'{name}: A.I.I raised {type(e).__name__}: {str(e)[:80]}'
    return None


def closed_form_cases(rng, scalar=None):
    s, s2 = K.S((3,)), K.S((2, 3))
    tree = {'a': K.S((2,)), 'b': (K.S((3, 2)),)}
    st = StokesIQUPyTree.structure_for((2,), F32)
    scalars = [2.0, -0.5, 1e-2, -3.0, float(rng.uniform(0.5, 2.0)) * float(rng.choice([-1, 1]))]
    if scalar not in (None, 0) and abs(scalar) < 1e6:
        scalars.insert(0, float(scalar))
    out = []
    for v in scalars:
        out.append((f'H({v:g}) on a leaf', HomothetyOperator(jnp.asarray(v, F32), s)))
        out.append((f'H({v:g}) on a pytree', HomothetyOperator(jnp.asarray(v, F32), tree)))

    def dvals(n):
        return jnp.asarray(rng.uniform(0.5, 2.0, n) * rng.choice([-1., 1.], n), F32)
    out += [('D', DiagonalOperator(dvals(3), in_structure=s)), ('D axis0', DiagonalOperator(dvals(2), axis_destination=0, in_structure=s2)),
            ('D pytree', DiagonalOperator(dvals(2), axis_destination=0, in_structure={'x': K.S((2,)), 'y': K.S((2, 4))})),
            ('I', IdentityOperator(tree)), ('R', QURotationOperator(dvals(2), st)), ('R.T', QURotationOperator(dvals(2), st).T),
            ('Mv', MoveAxisOperator(0, 1, in_structure=s2)), ('Mv(0,2)', MoveAxisOperator((0, 1), (2, 0), in_structure=K.S((2, 3, 4))))]
    D1, D2, H = DiagonalOperator(dvals(3), in_structure=s), DiagonalOperator(dvals(3), in_structure=s2), HomothetyOperator(jnp.asarray(-2., F32), s)
    out += [('BD[list]', BlockDiagonalOperator([D1, H])), ('BD[dict]', BlockDiagonalOperator({'u': D2, 'v': H, 'w': D1})),
            ('BD[nested]', BlockDiagonalOperator([[D1, H], {'k': (D2,)}])), ('BD[single]', BlockDiagonalOperator((D1,))),
            ('BD[BD]', BlockDiagonalOperator([BlockDiagonalOperator([D1, H]), D2])),
            ('BD[R]', BlockDiagonalOperator({'r': QURotationOperator(dvals(2), st), 'd': D1}))]
    return out


def closed_forms(w, seed, spec):
    """every closed-form inverse inverts; A.I.I denotes A"""
    t0 = time.time()
    rng = np.random.default_rng(seed)
    fails = []
    for name, A in closed_form_cases(rng, (w or {}).get('value')):
        r = check_closed_form(name, A, rng)
        if r:
            fails.append(r)
        if len(fails) >= 5 or time.time() - t0 > spec.get('budget_s', 90):
            break
    # wiring of the lazy classes: the inverse of a lazy inverse is its operand
    s = K.S((3,))
    D = DiagonalOperator(jnp.asarray([1., 2., 4.], F32), in_structure=s)
    M = np.asarray(rng.standard_normal((3, 3)))
    X = DenseBlockDiagonalOperator(jnp.asarray(M @ M.T + 3 * np.eye(3), F32), s, 'ij,...j->...i')
    if D.I.I is not D:
        fails.append('D.I.I is not D')
    if not isinstance(D.I, DiagonalInverseOperator) or D.I.operator is not D:
        fails.append('D.I is not DiagonalInverseOperator(D)')
    Xi = X.I
    if not isinstance(Xi, InverseOperator) or not isinstance(Xi, AbstractLazyInverseOperator):
        fails.append('X.I of an operator without closed form is not the lazy InverseOperator')
    elif Xi.I is not Xi.operator or not K.close(K.dense(Xi.I), K.dense(X)):
        fails.append('X.I.I is not the (reduced) operand of the lazy inverse')
    if not isinstance(Xi @ X, IdentityOperator) and not isinstance((Xi @ Xi.operator), IdentityOperator):
        fails.append('X.I @ X (own operand) is not short-cut to the identity')
    return fails[:8]


def pseudo_inverse(w, seed, spec):
    """diagonal with zero entries: Moore-Penrose identities, no NaN / Inf"""
    rng = np.random.default_rng(seed)
    fails = []
    cases = [np.array([0., 2., -4.]), np.array([0., 0.]), np.array([1e-30, 0., 3.]), rng.integers(-2, 3, 6).astype(float)]
    d0 = (w or {}).get('d')
    if isinstance(d0, (int, float)):
        cases.insert(0, np.array([float(d0), 0., 1.]))
    for d in cases:
        s = K.S((len(d),))
        D = DiagonalOperator(jnp.asarray(d, F32), in_structure=s)
        Di = D.I
        v = np.asarray(Di.diagonal, np.float64)
        dd = np.asarray(jnp.asarray(d, F32), np.float64)
        name = f'D={d.tolist()}'
        if not np.all(np.isfinite(v)):
            fails.append(f'{name}: the pseudo-inverse diagonal contains NaN/Inf: {v.tolist()}')
            continue
        if not np.allclose(dd * v * dd, dd, rtol=1e-5, atol=0) or not np.allclose(v * dd * v, v, rtol=1e-5, atol=0):
            fails.append(f'{name}: Moore-Penrose identities d v d = d, v d v = v fail for v = {v.tolist()}')
        if np.any((dd == 0) & (v != 0)) or np.any((dd != 0) & ~np.isclose(v * dd, 1, rtol=1e-5)):
            fails.append(f'{name}: v is not 1/d on the support of d and 0 elsewhere: {v.tolist()}')
        x = jnp.asarray(rng.standard_normal(len(d)), F32)
        y = np.asarray(Di(x))
        if not np.all(np.isfinite(y)) or not np.allclose(y, v * np.asarray(x), rtol=1e-5, atol=1e-6):
            fails.append(f'{name}: D.I(x) is not v * x / not finite')
        if Di.I is not D:
            fails.append(f'{name}: D.I.I is not D')
    return fails[:6]


def spd(rng, n):
    M = np.asarray(rng.standard_normal((n, n)))
    return M @ M.T / n + np.eye(n)            # condition number bounded


def lazy_solve(w, seed, spec):
    """SPD operator without closed form: A.I(y) solves A z = y to 1e-4; dense form; non-square refused; captured config"""
    rng = np.random.default_rng(seed)
    fails = []
    for n, shape in ((3, (3,)), (4, (2, 4)), (5, (5,))):
        s = K.S(shape)
        Mat = spd(rng, n)
        A = DenseBlockDiagonalOperator(jnp.asarray(Mat, F32), s, 'ij,...j->...i')
        full = K.dense(A)
        try:
            Ai = A.I
        except Exception as e:      # noqa: BLE001
            fails.append(f'SPD{shape}: .I raised {type(e).__name__}')
            continue
        if not isinstance(Ai, InverseOperator):
            fails.append(f'SPD{shape}: .I is a {type(Ai).__name__}')
            continue
        y = rand_like(s, rng)
        z = Ai(y)
        if not K.close(K.flat(A(z)), K.flat(y), 1e-4):
            fails.append(f'SPD{shape}: A(A.I(y)) != y to 1e-4')
        if not K.close(K.flat(z), np.linalg.solve(full, K.flat(y)), 1e-4):
            fails.append(f'SPD{shape}: A.I(y) is not the solution of A z = y')
        if not K.close(np.asarray(Ai.as_matrix()), np.linalg.inv(full), 1e-4):
            fails.append(f'SPD{shape}: as_matrix() of the inverse is not the matrix inverse')
        if Ai.I is not Ai.operator or not K.close(K.dense(Ai.I), full):
            fails.append(f'SPD{shape}: A.I.I does not denote A')
        # the configuration is the one active at creation, whatever is active at application time
        with Config(solver=lx.CG(rtol=1e-7, atol=1e-7, max_steps=200)):
            good = A.I
        with Config(solver=lx.CG(rtol=1e-7, atol=1e-7, max_steps=1), solver_throw=False):
            z2 = good(y)
        if not K.close(K.flat(z2), np.linalg.solve(full, K.flat(y)), 1e-4):
            fails.append(f'SPD{shape}: the solver active at application time was used instead of the captured one')
        if good.config.solver.max_steps != 200:
            fails.append(f'SPD{shape}: InverseOperator.config is not the configuration active at creation')
    # non-square operators are refused
    s2 = K.S((2, 3))
    rect = [('Dense 3->4', DenseBlockDiagonalOperator(jnp.ones((4, 3), F32), K.S((3,)), 'ij,...j->...i')),
            ('Composition Mv', CompositionOperator([MoveAxisOperator(0, 1, in_structure=s2), IdentityOperator(s2)]))]
    for name, R in rect:
        try:
            InverseOperator(R)
            fails.append(f'{name}: a non-square operator was accepted by InverseOperator')
        except ValueError:
            pass
        except Exception as e:      # noqa: BLE001
            fails.append(f'{name}: non-square operator refused with {type(e).__name__} instead of ValueError')
    try:
        InverseOperator(DenseBlockDiagonalOperator(jnp.asarray(spd(rng, 3), F32), K.S((3,)), 'ij,...j->...i'))
    except Exception as e:      # noqa: BLE001
        fails.append(f'a square operator was refused by InverseOperator: {type(e).__name__}')
    return fails[:8]


def inverse_family(w, seed, spec):
    """everything (scenarios whose counter-models carry no usable witness)"""
    fails = closed_forms(w, seed, spec)
    if len(fails) < 5:
        fails += pseudo_inverse(w, seed, spec)
    if len(fails) < 5:
        fails += lazy_solve(w, seed, spec)
    return fails[:8]


def threads(w, seed, spec):
    """name used by the helper shared with C19 (props/C19.the_var) for its module-state obligation"""
    return lazy_solve(w, seed, spec)

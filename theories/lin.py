"""`lin` facet (C04): every array value carries a tag that says how it depends on the operator input x.

  Zero   : identically zero (jnp.zeros, zeros_like, a literal 0)
  Lin    : a linear (homogeneous) function of x — the input itself and everything obtained from it by linear maps
  Const  : independent of x — operator fields (parameters, indices, masks, band values, angles, blocks), literals,
           shapes; everything computed only from them
  NonLin : anything else (affine with a non-zero offset, products of two Lin values, non-linear functions of x)

Order: Zero ⊑ Lin ⊑ NonLin, Zero ⊑ Const ⊑ NonLin (a Zero value is also Lin and also Const; Lin ⊔ Const = NonLin: an
affine map with a bias is not linear).  The tag algebra below IS the list of assumed dependency contracts of this facet
(trusted base; L column of DESIGN Appendix B):

  a + b, a - b, jnp.add/subtract           Zero+t = t; Lin±Lin = Lin; Const±Const = Const; Const±Lin = NonLin
  a * b, a @ b, jnp.multiply/matmul/dot/vdot/convolve/einsum(…)   bilinear: Zero·t = Zero; Const·Const = Const;
                                           Const·Lin = Lin; Lin·Lin = NonLin
  a / b                                    t/Const = t; anything / (Lin | Zero | NonLin) = NonLin
  a ** b, abs, jnp.cos/sin/sqrt/exp/log/abs/power/round/arccos/arctan2/max/min/prod/argmax/...
                                           Const (or Zero) -> Const; Lin -> NonLin
  -a, +a, .T .real .imag .conj() .ravel() .reshape() .astype() .copy() .squeeze() .sum() .mean()
  jnp.moveaxis/broadcast_to/diag/real/sum/mean/fft.fft/fft.ifft/asarray/array/astype
                                           linear maps: tag preserved
  comparisons (==, !=, <, ...)             of Const values: Const; of anything depending on x: NonLin
  jnp.where(c, a, b)                       c Const (or Zero): a ⊔ b (so Lin|Zero branches give Lin); c depending on x: NonLin
  x[idx], lax.dynamic_slice(x, starts, ..) idx / starts Const: tag of x; an index depending on x: NonLin
  jnp.pad(x, widths[, mode='constant'])    zero fill: tag of x (a non-zero constant_values: x ⊔ Const)
  jnp.concatenate/stack/hstack/vstack/block_diag(parts), x.at[i].set(v), x.at[i].add(v),
  lax.dynamic_update_slice(x, v, starts)   juxtaposition / overwrite / accumulation: ⊔ of the parts (Lin ⊔ Const = NonLin)
  jnp.zeros -> Zero;  jnp.ones/empty/eye/identity/arange -> Const;  jnp.full(s, v) -> tag of v;  python numbers:
                                           0 -> Zero, others Const;  shapes / sizes / dtypes: static, not arrays
  jnp.vectorize(f, signature=)             f applied to core slices carrying the tags of the arguments
  lax.fori_loop(lo, hi, body, init)        `for i in range(lo, hi): carry = body(i, carry)`: the tag T of the carry is a
                                           loop invariant found by iteration and CHECKED: init ⊑ T and body(i, T) ⊑ T
                                           (obligations inv-init / inv-pres); i is Const
  jax.tree.map/leaves/flatten/unflatten/reduce   propagate leaf by leaf (theories/pytree.py)
  lx.linear_solve(A, b, …).value           A⁻¹ is a fixed linear map: tag of b (ASSUMED: the solve is linear in b);
                                           obligation: the operand A's mv is linear
  jax.linear_transpose(f, s)(y)            the adjoint of f is a fixed linear map: tag of y — PROVIDED f is linear:
                                           obligation `lin:linear_transpose-of-a-linear-function` (f is run on a Lin input)
  jax.eval_shape, jax.ShapeDtypeStruct, jax.debug.callback, np.ceil/np.log2 on static numbers: as in theories/static.py
"""
from __future__ import annotations

from fractions import Fraction

import z3

from pyvc import builtins_model as B
from pyvc.theory import Theory
from pyvc.values import (NOT_IMPLEMENTED, ClassRef, Ext, Obj, PyFunc, SSeq, Unsupported, Value, concrete, fresh_bool,
                         fresh_int, is_z3, to_z3)
from theories import pytree as PT
from theories import static as STT

ZERO, LIN, CONST, NONLIN = 'Zero', 'Lin', 'Const', 'NonLin'
SDS = STT.SDS
fresh_shape = STT.fresh_shape


# ---------------------------------------------------------------------------------------------- tag algebra
def t_join(a, b):
    """least upper bound: juxtaposition / sum of two values"""
    if a == b:
        return a
    if a == ZERO:
        return b
    if b == ZERO:
        return a
    return NONLIN


def t_mul(a, b):
    if ZERO in (a, b):
        return ZERO
    if NONLIN in (a, b):
        return NONLIN
    if a == CONST:
        return b
    if b == CONST:
        return a
    return NONLIN           # Lin * Lin


def t_div(a, b):
    if b != CONST:
        return NONLIN
    return a


def t_fn(*ts):
    """a non-linear function of its arguments"""
    return CONST if all(t in (CONST, ZERO) for t in ts) else NONLIN


def t_index(x, idx_tag):
    return x if idx_tag in (CONST, ZERO) else NONLIN


# ---------------------------------------------------------------------------------------------- bookkeeping
def note(interp, what):
    """diagnostic trail: where a value stopped being linear / constant"""
    ev = interp.run.ghost.setdefault('lin_events', [])
    where = interp.callstack[-1] if getattr(interp, 'callstack', None) else ('?', 0)
    ev.append(f'{what} at {where[0].rsplit(".", 2)[-2] if "." in where[0] else where[0]}.'
              f'{where[0].rsplit(".", 1)[-1]}:{where[1]}')


def _meta(interp, note_=None):
    S = getattr(interp.run, '_S', None)
    m = {}
    if S is not None:
        m = {'inputs': dict(S.inputs), 'func': S.func_name, 'scenario': S.label}
        if S.oracle:
            m['oracle'] = S.oracle
    if note_:
        m['note'] = note_
    g = interp.run.ghost
    g['lin_n'] = g.get('lin_n', 0) + 1
    m['ordinal'] = 200000 + g['lin_n']
    return m


def ob(interp, kind, tag, goal, note_=None):
    interp.run.oblige(f'{interp.cur_name()}/{kind}:{tag}', goal, kind=kind, meta=_meta(interp, note_))
    if goal is False:
        interp.run.ghost.setdefault('lin_failures', []).append(tag)


# ---------------------------------------------------------------------------------------------- values
class LArr(Value):
    """an array with a linearity tag.  kind: 'bool' | 'int' | 'num'"""

    def __init__(self, tag=LIN, kind='num', shape=None, what='array'):
        self.tag, self.kind, self._shape, self.what = tag, kind, shape, what
        self.dtype = STT.DType()

    def __repr__(self):
        return f'<{self.tag} {self.what}>'

    # ---- static projections
    def shape(self, interp):
        if self._shape is None:
            self._shape = fresh_shape(None, interp)
        return self._shape

    def py_len(self, interp):
        return B.getitem(interp, self.shape(interp), 0)

    def py_getattr(self, interp, name):
        if name == 'shape':
            return self.shape(interp)
        if name == 'ndim':
            return self.shape(interp).length
        if name == 'size':
            n = fresh_int('size')
            interp.run.assume(n >= 0)
            return n
        if name == 'dtype':
            return self.dtype
        if name in ('T', 'real', 'imag', 'mT'):
            return derive(self, what=f'{self.what}.{name}')
        if name in ('ravel', 'copy', 'conj', 'flatten', 'squeeze', 'sum', 'mean', 'astype', 'transpose', 'reshape'):
            return PyFunc(lambda interp, *a, **k: derive(self, what=f'{self.what}.{name}()'), f'Array.{name}')
        if name in ('max', 'min', 'prod', 'any', 'all', 'argmax', 'argmin', 'round'):
            return PyFunc(lambda interp, *a, **k: fn_of(interp, name, self), f'Array.{name}')
        if name == 'at':
            return AtV(self)
        raise Unsupported(f'array attribute {name}')

    # ---- arithmetic
    def py_binop(self, interp, op, other, refl):
        if isinstance(other, Obj):
            return NOT_IMPLEMENTED
        a, b = (other, self) if refl else (self, other)
        ta, tb = tag_of(a), tag_of(b)
        if op in ('Add', 'Sub'):
            t = t_join(ta, tb)
        elif op in ('Mult', 'MatMult'):
            t = t_mul(ta, tb)
        elif op == 'Div':
            t = t_div(ta, tb)
        elif op in ('Pow', 'FloorDiv', 'Mod'):
            t = t_fn(ta, tb)
        elif op in ('BitAnd', 'BitOr', 'BitXor'):
            t = t_fn(ta, tb)
            return mk(interp, t, [a, b], f'{op}', kind='bool' if self.kind == 'bool' else 'int')
        else:
            return NOT_IMPLEMENTED
        return mk(interp, t, [a, b], op)

    def py_unop(self, interp, op):
        if op in ('USub', 'UAdd'):
            return derive(self, what=f'-{self.what}' if op == 'USub' else self.what)
        if op == 'Invert':
            return mk(interp, t_fn(self.tag), [self], '~', kind=self.kind)
        if op == 'Abs':
            return fn_of(interp, 'abs', self)
        raise Unsupported(f'unary {op} on an array')

    def py_compare(self, interp, op, other, refl):
        return mk(interp, t_fn(self.tag, tag_of(other)), [self, other], 'comparison', kind='bool')

    def py_eq(self, interp, other):
        return mk(interp, t_fn(self.tag, tag_of(other)), [self, other], '==', kind='bool')

    def py_ne(self, interp, other):
        return mk(interp, t_fn(self.tag, tag_of(other)), [self, other], '!=', kind='bool')

    def py_getitem(self, interp, idx):
        return mk(interp, t_index(self.tag, index_tag(interp, idx)), [self], 'indexing', kind=self.kind)

    # ---- uses that need a concrete value
    def truth(self, interp):
        if self.tag not in (CONST, ZERO):
            ob(interp, 'lin', f'python-branch-on-a-value-that-depends-on-the-input ({self.what})', False)
        return fresh_bool('array_truth')

    def py_int(self, interp):
        if self.tag not in (CONST, ZERO):
            ob(interp, 'lin', f'int()-of-a-value-that-depends-on-the-input ({self.what})', False)
        return fresh_int('array_int')

    def py_iter(self, interp, expect=None):
        raise Unsupported('iteration over an array (lin facet)')


class LTree(Value):
    """a pytree of UNKNOWN structure (what an arbitrary operator returns) all of whose leaves carry the tag `tag`"""

    def __init__(self, tag=LIN, what='pytree'):
        self.tag, self.what = tag, what

    def __repr__(self):
        return f'<{self.tag} pytree {self.what}>'

    def generic_leaf(self):
        return LArr(self.tag, what=f'leaf of {self.what}')


class AtV(Value):
    def __init__(self, arr):
        self.arr = arr

    def py_getitem(self, interp, idx):
        base = self.arr
        it = index_tag(interp, idx)

        class Upd(Value):
            def py_getattr(s, interp, name):
                if name in ('set', 'add'):
                    def upd(interp, v=None, **k):
                        t = t_index(t_join(base.tag, tag_of(v)), it)
                        return mk(interp, t, [base, v], f'at[].{name}', kind=base.kind)
                    return PyFunc(upd, 'at.' + name)
                if name == 'get':
                    return PyFunc(lambda interp, **k: base.py_getitem(interp, idx), 'at.get')
                if name in ('multiply', 'divide', 'power', 'min', 'max'):
                    def upd2(interp, v=None, **k):
                        # x.at[i].multiply(v): untouched entries keep x, touched ones are x*v / min(x, v) ...
                        tv = tag_of(v)
                        inner = t_mul(base.tag, tv) if name == 'multiply' else (
                            t_div(base.tag, tv) if name == 'divide' else t_fn(base.tag, tv))
                        return mk(interp, t_index(t_join(base.tag, inner), it), [base, v], f'at[].{name}', kind=base.kind)
                    return PyFunc(upd2, 'at.' + name)
                raise Unsupported(f'at[].{name}')
        return Upd()


def tag_of(v):
    """tag of one value used as an array operand"""
    if isinstance(v, (LArr, LTree)):
        return v.tag
    if v is None:
        return CONST
    if isinstance(v, bool):
        return CONST
    if isinstance(v, (int, float, Fraction)):
        return ZERO if v == 0 else CONST
    if is_z3(v):
        c = concrete(v)
        return ZERO if (c is not None and not isinstance(c, bool) and c == 0) else CONST
    ts = [x.tag for x in arrays_in(v)]
    if isinstance(v, (tuple, list, B.PyList, dict, SSeq, STT.SDS, STT.DType, str, slice)) or v is Ellipsis:
        t = CONST
        for x in ts:
            t = t_join_const(t, x)
        return t
    raise Unsupported(f'lin facet: tag of {v!r}')


def t_join_const(acc, t):
    """tag of a container of index-like values: Const unless something in it depends on x"""
    if t in (CONST, ZERO):
        return acc
    return NONLIN


def index_tag(interp, idx):
    items = idx if isinstance(idx, tuple) else (idx,)
    if isinstance(idx, SSeq):
        items = tuple(idx.py_items()) if idx.is_concrete_len() else ()
    t = CONST
    for it in items:
        if isinstance(it, LArr):
            t = t_join_const(t, it.tag)
        elif isinstance(it, slice):
            for b in (it.start, it.stop, it.step):
                if isinstance(b, LArr):
                    t = t_join_const(t, b.tag)
        elif it is Ellipsis or it is None or isinstance(it, (int, bool)) or is_z3(it):
            pass
        elif isinstance(it, (tuple, list, B.PyList, SSeq)):
            for x in arrays_in(it):
                t = t_join_const(t, x.tag)
        else:
            raise Unsupported(f'array index {it!r}')
    return t


def arrays_in(v):
    out = []

    def rec(x):
        if isinstance(x, LArr):
            out.append(x)
        elif isinstance(x, (tuple, list)):
            [rec(y) for y in x]
        elif isinstance(x, B.PyList) and x.seq is None:
            [rec(y) for y in x.items]
        elif isinstance(x, dict):
            [rec(y) for y in x.values()]
        elif isinstance(x, SSeq):
            if hasattr(x, 'items'):
                [rec(y) for y in x.items]
            elif getattr(x, 'segs', None) is not None:
                [rec(sg[1]) for sg in x.segs if sg[0] == 'item']
        elif isinstance(x, Obj):
            [rec(y) for y in x.fields.values() if not isinstance(y, Obj)]
    rec(v)
    return out


def derive(a: LArr, kind=None, what='derived'):
    return LArr(a.tag, kind or a.kind, what=what)


def mk(interp, tag, srcs, what, kind='num'):
    if tag == NONLIN and all(tag_of_safe(s) != NONLIN for s in srcs):
        note(interp, f'{what} of ' + ' / '.join(str(tag_of_safe(s)) for s in srcs) + ' gives NonLin')
    return LArr(tag, kind, what=what)


def tag_of_safe(v):
    try:
        return tag_of(v)
    except Unsupported:
        return CONST


def fn_of(interp, name, *args):
    return mk(interp, t_fn(*[tag_of(a) for a in args]), list(args), name)


def join_all(vs):
    t = ZERO
    seen = False
    for v in vs:
        t = t_join(t, tag_of(v)) if seen else tag_of(v)
        seen = True
    return t if seen else ZERO


def like(interp, tree, tag=LIN, what='fresh'):
    """a tree of fresh arrays tagged `tag` with the tree structure of `tree` (leaves: arrays or ShapeDtypeStructs)"""
    if isinstance(tree, LTree):
        return LTree(tag, what)
    return PT.tree_map(interp, PyFunc(lambda interp, leaf: LArr(tag, what=what), 'fresh'), tree)


def leaves_of(interp, tree):
    if isinstance(tree, LTree):
        return [tree.generic_leaf()]
    return PT.flatten(interp, tree)[0]


def tree_tag(interp, tree):
    """⊔ of the tags of the leaves of a pytree of arrays (an empty tree is Zero)"""
    return join_all(leaves_of(interp, tree))


def is_linear_result(interp, tree):
    """(ok, description): every leaf is an array tagged Lin or Zero"""
    bad = []
    for i, leaf in enumerate(leaves_of(interp, tree)):
        t = tag_of_safe(leaf) if isinstance(leaf, (LArr, int, float, Fraction)) or is_z3(leaf) else None
        if t not in (LIN, ZERO):
            bad.append(f'leaf {i}: {leaf!r}')
    return (not bad), '; '.join(bad)


# ---------------------------------------------------------------------------------------------- the theory
LINEAR_MAPS = ['moveaxis', 'broadcast_to', 'diag', 'real', 'imag', 'conj', 'sum', 'mean', 'negative', 'asarray', 'array',
               'astype', 'ravel', 'reshape', 'transpose', 'squeeze', 'expand_dims', 'flip', 'roll', 'swapaxes', 'cumsum',
               'atleast_1d', 'atleast_2d', 'trace', 'tril', 'triu']
BILINEAR = ['multiply', 'matmul', 'dot', 'vdot', 'convolve', 'inner', 'outer', 'tensordot', 'kron']
NONLINEAR = ['cos', 'sin', 'tan', 'sqrt', 'abs', 'absolute', 'exp', 'log', 'log2', 'log10', 'power', 'square', 'round',
             'arccos', 'arcsin', 'arctan', 'arctan2', 'max', 'min', 'maximum', 'minimum', 'prod', 'any', 'all', 'argmax',
             'argmin', 'count_nonzero', 'ceil', 'floor', 'sign', 'clip', 'reciprocal', 'isnan', 'isfinite', 'logical_not',
             'logical_and', 'logical_or', 'unique', 'sort', 'argsort', 'linalg.inv', 'linalg.norm']
JUXTAPOSE = ['concatenate', 'stack', 'hstack', 'vstack']


def install(T: Theory):
    PT.install(T)
    pt_map, pt_leaves = T.externals['jax.tree.map'], T.externals['jax.tree.leaves']

    @T.ext('jax.tree.map', 'jax.tree_util.tree_map')
    def _map(interp, f, tree, *rest, is_leaf=None):
        if any(isinstance(t, LTree) for t in (tree,) + rest):
            # leaf by leaf on trees of unknown structure: f on one generic leaf of each (a concrete tree contributes the
            # join of its leaves' tags)
            args = [t.generic_leaf() if isinstance(t, LTree) else LArr(tree_tag(interp, t), what='generic leaf')
                    for t in (tree,) + rest]
            r = interp.call(f, args, {})
            return LTree(tag_of(r), what='tree.map result')
        return pt_map(interp, f, tree, *rest, is_leaf=is_leaf)

    @T.ext('jax.tree.leaves', 'jax.tree_util.tree_leaves')
    def _leaves(interp, tree, is_leaf=None):
        if isinstance(tree, B.PyList) and tree.seq is not None and not tree.seq.is_concrete_len():
            return tree         # a flat list of a symbolic number of operators: its own leaf list
        if isinstance(tree, LTree):
            raise Unsupported('tree.leaves of a pytree of unknown structure')
        return pt_leaves(interp, tree, is_leaf=is_leaf)

    def first_arrays(a):
        return a[0] if a else None

    for n in LINEAR_MAPS:
        T.externals['jax.numpy.' + n] = (lambda n: lambda interp, x, *a, **k: mk(interp, tag_of(x), [x], n))(n)
    for n in BILINEAR:
        def bil(interp, *ops, _n=n, **k):
            t = CONST
            for o in ops:
                t = t_mul(t, tag_of(o))
            return mk(interp, t, list(ops), _n)
        T.externals['jax.numpy.' + n] = bil
    for n in NONLINEAR:
        T.externals['jax.numpy.' + n] = (lambda n: lambda interp, *a, **k: fn_of(interp, n, *a))(n)
    for n in JUXTAPOSE:
        def jux(interp, parts, *a, _n=n, **k):
            items = interp.iter_concrete(parts) if not isinstance(parts, SSeq) or parts.is_concrete_len() else None
            if items is None:
                raise Unsupported(f'{_n} of a symbolic number of arrays (lin facet)')
            return mk(interp, join_all(items), list(items), _n)
        T.externals['jax.numpy.' + n] = jux
    T.externals['jax.scipy.linalg.block_diag'] = lambda interp, *ms: mk(interp, join_all(ms), list(ms), 'block_diag')
    T.externals['jax.numpy.add'] = lambda interp, a, b: mk(interp, t_join(tag_of(a), tag_of(b)), [a, b], 'add')
    T.externals['jax.numpy.subtract'] = lambda interp, a, b: mk(interp, t_join(tag_of(a), tag_of(b)), [a, b], 'subtract')
    T.externals['jax.numpy.divide'] = lambda interp, a, b: mk(interp, t_div(tag_of(a), tag_of(b)), [a, b], 'divide')
    T.externals['jax.numpy.true_divide'] = T.externals['jax.numpy.divide']

    T.externals['jax.numpy.zeros'] = lambda interp, *a, **k: LArr(ZERO, what='zeros')
    T.externals['jax.numpy.zeros_like'] = lambda interp, *a, **k: LArr(ZERO, what='zeros')
    for n in ('ones', 'empty', 'eye', 'identity', 'arange', 'ones_like', 'linspace', 'tri'):
        T.externals['jax.numpy.' + n] = (lambda n: lambda interp, *a, **k: LArr(CONST, what=n))(n)

    @T.ext('jax.numpy.full', 'jax.numpy.full_like')
    def _full(interp, shape, fill_value, *a, **k):
        return LArr(tag_of(fill_value), what='full')

    @T.ext('jax.numpy.where')
    def _where(interp, c, a=None, b=None, **k):
        if a is None:
            return fn_of(interp, 'where(cond)', c)
        tc = tag_of(c)
        t = t_join(tag_of(a), tag_of(b)) if tc in (CONST, ZERO) else NONLIN
        return mk(interp, t, [c, a, b], 'where')

    @T.ext('jax.numpy.pad')
    def _pad(interp, x, pad_width=None, mode='constant', constant_values=0, **k):
        if mode != 'constant':
            # edge / reflect / wrap paddings copy entries of x: linear maps too
            return mk(interp, tag_of(x), [x], f'pad({mode})')
        return mk(interp, t_join(tag_of(x), tag_of(constant_values)), [x, constant_values], 'pad')

    @T.ext('jax.numpy.fft.fft', 'jax.numpy.fft.ifft', 'jax.numpy.fft.rfft', 'jax.numpy.fft.irfft')
    def _fft(interp, x, *a, **k):
        return mk(interp, tag_of(x), [x], 'fft')

    @T.ext('jax.numpy.einsum')
    def _einsum(interp, subscripts, *ops, **k):
        t = CONST
        for o in ops:
            t = t_mul(t, tag_of(o))
        return mk(interp, t, list(ops), 'einsum')

    @T.ext('jax.lax.dynamic_slice')
    def _dslice(interp, x, starts, sizes=None, **k):
        return mk(interp, t_index(tag_of(x), tag_of(starts)), [x], 'dynamic_slice')

    @T.ext('jax.lax.dynamic_update_slice')
    def _dupd(interp, x, upd, starts, **k):
        return mk(interp, t_index(t_join(tag_of(x), tag_of(upd)), tag_of(starts)), [x, upd], 'dynamic_update_slice')

    @T.ext('jax.numpy.broadcast_shapes')
    def _bshapes(interp, *shapes):
        if interp.run.decide(2) == 1:
            interp.raise_('ValueError', 'incompatible shapes for broadcasting')
        return fresh_shape(None, interp)

    @T.ext('jax.numpy.isscalar')
    def _isscalar(interp, v):
        return not isinstance(v, (LArr, Obj, tuple, list, B.PyList, dict))

    @T.ext('jax.numpy.result_type')
    def _rt(interp, *a):
        return STT.DType()

    @T.ext('jax.numpy.vectorize')
    def _vectorize(interp, f=None, **k):
        def wrap(fn):
            def call(interp, *args, **kw):
                core = [LArr(a.tag, a.kind, shape=fresh_shape(1), what=f'core slice of {a.what}')
                        if isinstance(a, LArr) else a for a in args]
                r = interp.call(fn, core, kw)
                if isinstance(r, LArr):
                    return LArr(r.tag, r.kind, what='vectorized result')
                if isinstance(r, tuple):
                    return tuple(LArr(tag_of(x), what='vectorized result') for x in r)
                return LArr(tag_of(r), what='vectorized result')
            return PyFunc(call, 'vectorized')
        if f is None:
            return PyFunc(lambda interp, fn: wrap(fn), 'vectorize()')
        return wrap(f)

    @T.ext('jax.lax.fori_loop')
    def _fori(interp, lo, hi, body, init, **k):
        """for i in range(lo, hi): carry = body(i, carry) — the carry's tags are an invariant found by iteration, checked"""
        def tags(tree):
            return [tag_of(x) for x in leaves_of(interp, tree)]

        def with_tags(tree, ts):
            it = iter(ts)
            return PT.tree_map(interp, PyFunc(lambda interp, leaf: LArr(next(it), getattr(leaf, 'kind', 'num'),
                                                                       what='loop carry'), 'carry'), tree)
        cur = tags(init)
        i = LArr(CONST, 'int', shape=fresh_shape(0), what='loop index')
        for _round in range(4):
            carry = with_tags(init, cur)
            r = interp.call(body, [i, carry], {})
            nxt = tags(r)
            if len(nxt) != len(cur):
                raise Unsupported('fori_loop body changes the structure of the carry')
            joined = [t_join(a, b) for a, b in zip(cur, nxt)]
            if joined == cur:
                ob(interp, 'inv-init', 'fori_loop-carry-tags-hold-initially', True)
                ob(interp, 'inv-pres', 'fori_loop-carry-tags-are-preserved-by-the-body', True,
                   note_=f'invariant: carry tags {cur}')
                return with_tags(init, cur)
            cur = joined
        raise Unsupported('fori_loop: no stable carry tags')

    @T.ext('jax.linear_transpose')
    def _lt(interp, f, *structs):
        prim_args = [like(interp, s, LIN, what='primal input of linear_transpose') for s in structs]
        r = interp.call(f, prim_args, {})
        ok, why = is_linear_result(interp, r)
        ob(interp, 'lin', 'linear_transpose-of-a-linear-function', ok, note_=why)

        def ct(interp, y):
            t = tree_tag(interp, y)
            return tuple(like(interp, s, t, what='cotangent') for s in structs)
        return PyFunc(ct, 'linear_transpose(f)')

    @T.ext('jax.eval_shape')
    def _eval_shape(interp, f, *args):
        r = interp.call(f, [like(interp, a, LIN) for a in args], {})
        return PT.tree_map(interp, PyFunc(lambda interp, leaf: SDS(), 'sds'), r)

    @T.ext('jax.ShapeDtypeStruct')
    def _sds(interp, shape, dtype=None, **k):
        return SDS(B.as_seq(interp, shape))

    @T.ext('lineax.TaggedLinearOperator')
    def _tagged(interp, op, tag):
        return ('tagged', op, tag)

    @T.ext('lineax.linear_solve')
    def _solve(interp, A, b, **k):
        op = A[1] if isinstance(A, tuple) else A
        if isinstance(op, Obj):
            r = interp.call(interp.getattr(op, 'mv'), [like(interp, b, LIN, what='solver iterate')], {})
            ok, why = is_linear_result(interp, r)
            ob(interp, 'lin', 'linear_solve-operand-is-a-linear-map', ok, note_=why)
        return STT.SolutionV(like(interp, b, tree_tag(interp, b), what='A^-1 b'))

    @T.ext('jax.debug.callback')
    def _cb(interp, f, *a, **k):
        return None
    T.ext_values['lineax.positive_semidefinite_tag'] = Ext('lineax.positive_semidefinite_tag')

    @T.ext('numpy.ceil')
    def _ceil(interp, v):
        if isinstance(v, LArr):
            raise Unsupported('numpy function applied to a jax array')
        c = concrete(v)
        if c is not None:
            import math
            return Fraction(math.ceil(c))
        r = B.to_real(v)
        return -z3.ToReal(z3.ToInt(-r))

    @T.ext('numpy.log2')
    def _log2(interp, v):
        return z3.ToReal(fresh_int('log2'))

    def isinst(interp, v, c):
        if isinstance(v, LTree):
            return False
        if isinstance(v, (LArr, STT.SDS, STT.DType, PT.TreeDefV, STT.SolutionV)):
            if isinstance(c, Ext):
                return isinstance(v, LArr) and c.path in ('jax.Array', 'jax.numpy.ndarray', 'jaxtyping.Array')
            if isinstance(c, (ClassRef, PyFunc)):
                return False
        if isinstance(c, Ext) and isinstance(v, (list, B.PyList)):
            return False
        return None
    T.isinstance_handlers.append(isinst)

    def filt(interp, e, g, seq, fr, elt_fn, kind):
        from pyvc.theory import DistinctSeq
        if isinstance(seq, DistinctSeq):
            out = SSeq.fresh('dups', kind='list')
            interp.run.assume(z3.And(to_z3(out.length) >= 0, (to_z3(out.length) > 0) == seq.has_dup()))
            return out
        return None
    T.filter_comprehension = filt
    return T


def theory():
    T = Theory()
    install(T)
    return T

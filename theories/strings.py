"""String theory: Python `str` values as sequences of integer character codes (SSeq kind 'str', unbounded
symbolic length), and the str / set / list operations furax's einsum-subscript code uses.

Nothing here is furax-specific.  What is modelled (dependency contracts of the *builtin* types; each is the
documented CPython behaviour restricted to the stated argument class; anything else is `Unsupported` ->
UNDECIDED, never a guess):

  * s.split(sep), sep a concrete non-empty string whose characters are pairwise distinct (so two occurrences
    cannot overlap):  no occurrence -> [s];  exactly one occurrence, at p -> [s[:p], s[p+len(sep):]];
    two or more -> all the parts when the string's piece structure shows them, else a value of which only the
    length (>= 3) is modelled (unpacking it into fewer than 3 targets raises ValueError as in Python).
  * s.replace(old, new), old non-empty: new.join(s.split(old)) when the piece structure of s decides the
    occurrences.  Otherwise only new == '':  s.replace(c, '') for one character c:  c absent -> s;  else an
    under-specified fresh string r with len(r) < len(s), no c in r, every character of r occurs in s, every
    character of s other than c occurs in r (order preservation is NOT stated: weaker than Python, hence sound);
    s.replace('...', ''):  no '.' in s -> s;  the dots of s form exactly one run of three, at p -> s[:p] + s[p+3:];
    any other distribution of dots -> Unsupported.
  * s.index(c) for one character c: the first position, ValueError when absent.
  * set(s) for a string s, `a & b`, `a - b`, `len(set) <op> constant`, `x in set`, set.pop() (some element, removed):
    a set of characters is kept as (carrier string, predicate): its elements are the carrier's characters that
    satisfy the predicate, so cardinality tests quantify over *positions* of the carrier (array reads make good
    instantiation triggers; quantifying over character values does not).
  * list(s), `lst[i] = c` (IndexError outside the range, negative indices wrap), ''.join(lst): a list of characters
    is the string plus a finite list of point updates.
  * f-strings whose replacement fields are plain `{expr}` (no conversion, no format spec) with string-valued
    expressions: the concatenation; every other f-string stays opaque (messages).
  * == / != between strings: equal lengths and equal characters at every position (pyvc.values.SSeq.eq).

Piecewise strings (PStr): a string given as a concatenation of literal characters and symbolic pieces.  Quantifiers
over a PStr are split per piece, so formulas mention the base arrays with plain indices.  split/replace are decided
on the piece structure when every symbolic piece carries the `charset` tag 'letters' (every character an ASCII
letter); the tag is set only by `letters()` below, together with the corresponding assumption, so a structural
decision taken from it is implied by the path condition.
"""
from __future__ import annotations

import ast

import z3

from pyvc import builtins_model as B
from pyvc.theory import Theory
from pyvc.values import (NOT_IMPLEMENTED, PyFunc, SSeq, Unsupported, Value, concrete, fresh_int, is_intlike,
                         to_z3, z_and, z_eq, z_implies, z_ite, z_not, z_or, zbool)

COMMA, DOT, SPACE, MINUS, GT = 44, 46, 32, 45, 62


def letter(x):
    x = to_z3(x)
    return z3.Or(z3.And(x >= 65, x <= 90), z3.And(x >= 97, x <= 122))


def codes(v):
    """list of character codes of a concrete string value (python str / lifted SSeq / single code), else None"""
    if isinstance(v, str):
        return [ord(c) for c in v]
    if isinstance(v, SSeq) and v.kind == 'str':
        items = getattr(v, 'items', None)
        if items is None:
            return None
        cs = [concrete(x) for x in items]
        return cs if all(isinstance(c, int) for c in cs) else None
    if isinstance(v, int) and not isinstance(v, bool):
        return [v]
    return None


def pystr(v):
    cs = codes(v)
    return None if cs is None else ''.join(chr(c) for c in cs)


def sym(v) -> SSeq:
    return v if isinstance(v, SSeq) else SSeq.lift(v)


def _simp(e):
    return e if isinstance(e, int) else z3.simplify(to_z3(e))


def _is0(e):
    return isinstance(e, int) and e == 0


# ---------------------------------------------------------------------------------------------- piecewise strings
class PStr(SSeq):
    def __init__(self, pieces, kind='str'):
        ps = []
        for p in pieces:
            if isinstance(p, list):
                if not p:
                    continue
                if ps and isinstance(ps[-1], list):
                    ps[-1] = ps[-1] + list(p)
                else:
                    ps.append(list(p))
            elif isinstance(p, PStr):
                for q in p.pieces:
                    if isinstance(q, list) and ps and isinstance(ps[-1], list):
                        ps[-1] = ps[-1] + list(q)
                    else:
                        ps.append(q)
            else:
                ps.append(p)
        self.pieces = ps
        offs, off = [], 0
        for p in ps:
            offs.append(off)
            off = _simp(off + (len(p) if isinstance(p, list) else to_z3(p.length)))
            c = concrete(off)
            off = c if c is not None else off
        self.offs = offs
        super().__init__(off, self._get, kind)
        if all(isinstance(p, list) for p in ps):
            self.items = [x for p in ps for x in p]

    def retag(self, kind):
        return PStr(self.pieces, kind)

    def _get(self, k):
        out = None
        for p, off in reversed(list(zip(self.pieces, self.offs))):       # nested ite reading left to right
            if isinstance(p, list):
                for j in reversed(range(len(p))):
                    out = p[j] if out is None else z_ite(_simp(to_z3(k) == to_z3(off + j)), p[j], out)
            else:
                e = p.get(k if _is0(off) else _simp(to_z3(k) - to_z3(off)))
                out = e if out is None else z_ite(_simp(to_z3(k) < to_z3(off) + to_z3(p.length)), e, out)
        return 0 if out is None else out

    def _per_piece(self, pred, lo, hi, conj):
        if not (_is0(lo) and hi is None):
            return None
        parts = []
        for p, off in zip(self.pieces, self.offs):
            if isinstance(p, list):
                parts.extend(pred(_simp(off + j), x) for j, x in enumerate(p))
            else:
                f = p.forall if conj else p.exists
                parts.append(f(lambda j, e, off=off: pred(j if _is0(off) else to_z3(j) + to_z3(off), e)))
        return z_and(*parts) if conj else z_or(*parts)

    def forall(self, pred, lo=0, hi=None):
        r = self._per_piece(pred, lo, hi, True)
        return r if r is not None else SSeq.forall(self, pred, lo, hi)

    def exists(self, pred, lo=0, hi=None):
        r = self._per_piece(pred, lo, hi, False)
        return r if r is not None else SSeq.exists(self, pred, lo, hi)

    def concat(self, other):
        return cat(self, other)


def cat(*vals) -> PStr:
    pieces = []
    for v in vals:
        cs = codes(v)
        if isinstance(v, PStr):
            pieces.append(v)
        elif cs is not None:
            pieces.append(cs)
        else:
            pieces.append(sym(v))
    return PStr(pieces)


def letters(S, name) -> SSeq:
    """scenario input: a symbolic piece of ASCII letters (any length >= 0)"""
    p = S.seq(name, kind='str')
    p.charset = 'letters'
    S.assume(p.forall(lambda k, e: letter(e)))
    return p


def pstr(*parts) -> PStr:
    """PStr from python strings (literal) and symbolic pieces"""
    return PStr([[ord(c) for c in x] if isinstance(x, str) else x for x in parts])


class UStr(SSeq):
    """a sequence with finitely many point updates (list item assignments), later updates win"""

    def __init__(self, base: SSeq, updates, kind):
        self.src, self.updates = base, list(updates)
        super().__init__(base.length, self._get, kind)

    def retag(self, kind):
        return UStr(self.src, self.updates, kind)

    def _at(self, pos, e):
        out = e
        for i, v in self.updates:
            out = z_ite(_simp(to_z3(pos) == to_z3(i)), v, out)
        return out

    def _get(self, k):
        return self._at(k, self.src.get(k))

    def forall(self, pred, lo=0, hi=None):
        if _is0(lo) and hi is None:
            return self.src.forall(lambda k, e: pred(k, self._at(k, e)))
        return SSeq.forall(self, pred, lo, hi)

    def exists(self, pred, lo=0, hi=None):
        if _is0(lo) and hi is None:
            return self.src.exists(lambda k, e: pred(k, self._at(k, e)))
        return SSeq.exists(self, pred, lo, hi)


class StrList(Value):
    """list(s) for a string s: mutable (aliasing as in Python: one object), item assignment only"""

    def __init__(self, base: SSeq):
        self.base, self.updates = base, []

    def as_sseq(self, interp):
        return UStr(self.base, self.updates, 'list')

    def py_len(self, interp):
        return self.base.length

    def truth(self, interp):
        n = self.base.length
        return (n > 0) if isinstance(n, int) else to_z3(n) > 0

    def py_iter(self, interp, expect=None):
        return self.as_sseq(interp).py_items()

    def py_getitem(self, interp, idx):
        return B.getitem(interp, self.as_sseq(interp), idx)

    def py_setitem(self, interp, idx, v):
        if isinstance(idx, slice):
            raise Unsupported('slice assignment on a list of characters')
        if isinstance(v, (str, SSeq)):
            cs = sym(v)
            if concrete(cs.length) != 1:
                raise Unsupported('list of characters: item of length != 1')
            v = cs.get(0)
        n = self.base.length
        ci, cn = concrete(idx), concrete(n)
        if ci is not None and cn is not None:
            j = ci + cn if ci < 0 else ci
            if not 0 <= j < cn:
                interp.raise_('IndexError')
        else:
            zi, zn = to_z3(idx), to_z3(n)
            j = z3.If(zi < 0, zi + zn, zi)
            ok = z3.And(j >= 0, j < zn)
            if not interp.run.branch(ok):      # (always a recorded decision: path replay must see the same forks)
                interp.raise_('IndexError')
            j = _simp(j)
        self.updates.append((j, v))


# ---------------------------------------------------------------------------------------------- sets of characters
class CharSet(Value):
    """{ carrier[i] : member(carrier[i]) }"""

    def __init__(self, carrier: SSeq, member=None):
        self.carrier = carrier
        self.member = member or (lambda v: True)

    def contains(self, v):
        return self.carrier.exists(lambda i, e: z_and(z_eq(e, v), self.member(e)))

    def at_least(self, k):
        if k <= 0:
            return True
        c = self.carrier

        def rec(chosen):
            if len(chosen) == k:
                return True
            return c.exists(lambda i, e: z_and(self.member(e), *[z_not(z_eq(e, x)) for x in chosen], rec(chosen + [e])))
        return rec([])

    def len_cmp(self, op, n):
        if not isinstance(n, int):
            raise Unsupported('len(set) compared with a symbolic value')
        ge = self.at_least
        if op == 'GtE':
            return ge(n)
        if op == 'Gt':
            return ge(n + 1)
        if op == 'Lt':
            return z_not(ge(n))
        if op == 'LtE':
            return z_not(ge(n + 1))
        if op == 'Eq':
            return z_and(ge(n), z_not(ge(n + 1)))
        if op == 'NotEq':
            return z_not(z_and(ge(n), z_not(ge(n + 1))))
        raise Unsupported(op)

    def truth(self, interp):
        return self.at_least(1)

    def py_len(self, interp):
        return CharSetLen(self)

    def py_contains(self, interp, x):
        cs = codes(x) if isinstance(x, (str, SSeq)) else None
        if cs is not None and len(cs) == 1:
            x = cs[0]
        return self.contains(x)

    def py_binop(self, interp, op, other, refl):
        if not isinstance(other, CharSet):
            return NOT_IMPLEMENTED
        a, b = (other, self) if refl else (self, other)
        if op == 'BitAnd':
            return CharSet(a.carrier, lambda v: z_and(a.member(v), b.contains(v)))
        if op == 'Sub':
            return CharSet(a.carrier, lambda v: z_and(a.member(v), z_not(b.contains(v))))
        if op == 'BitOr':
            return CharSet(cat(a.carrier, b.carrier), lambda v: z_or(a.contains(v), b.contains(v)))
        return NOT_IMPLEMENTED

    def py_getattr(self, interp, name):
        if name == 'pop':
            return PyFunc(lambda interp: self._pop(interp), 'set.pop')
        raise Unsupported(f'set.{name}')

    def _pop(self, interp):
        nonempty = self.at_least(1)
        if nonempty is False:
            interp.raise_('KeyError')
        if nonempty is not True and not interp.run.branch(nonempty):
            interp.raise_('KeyError')
        items = getattr(self.carrier, 'items', None)
        c = None
        if items is not None:
            for e in items:
                m = self.member(e)
                m = m if isinstance(m, bool) else concrete(m)
                if m is True:
                    c = e
                    break
                if m is None:
                    break
        if c is None:
            c = fresh_int('pop')
            interp.run.assume(self.contains(c))
        old = self.member
        self.member = lambda v: z_and(old(v), z_not(z_eq(v, c)))
        return c


class CharSetLen(Value):
    def __init__(self, s: CharSet):
        self.s = s

    def py_compare(self, interp, op, other, refl):
        if refl:
            op = {'Gt': 'Lt', 'Lt': 'Gt', 'GtE': 'LtE', 'LtE': 'GtE'}.get(op, op)
        return self.s.len_cmp(op, concrete(other))

    def py_eq(self, interp, other):
        return self.s.len_cmp('Eq', concrete(other))


def _set(interp, v=()):
    if isinstance(v, str) or (isinstance(v, SSeq) and v.kind == 'str'):
        return CharSet(sym(v))
    return B._set(interp, v)


def _list(interp, v=()):
    if isinstance(v, str) or (isinstance(v, SSeq) and v.kind == 'str'):
        return StrList(sym(v))
    return B._list(interp, v)


# ---------------------------------------------------------------------------------------------- split / replace
class ManyParts(Value):
    """result of str.split with at least two separator occurrences: only the number of parts (>= 3) is modelled"""

    def __init__(self, count):
        self.count = count

    def py_len(self, interp):
        return self.count

    def truth(self, interp):
        return True

    def py_iter(self, interp, expect=None):
        if expect is not None and expect < 3:
            interp.raise_('ValueError', 'too many values to unpack')
        raise Unsupported('iteration over the parts of a split with several separator occurrences')


def _excludes(piece, cs) -> bool:
    """the symbolic piece provably contains none of the characters cs"""
    if getattr(piece, 'charset', None) == 'letters':
        return all(not (65 <= c <= 90 or 97 <= c <= 122) for c in cs)
    return False


def _structural_occurrences(s: PStr, sc):
    """(piece index, char index) of the leftmost non-overlapping occurrences of the literal sc in a PStr, or None when
    the structure does not decide them: a symbolic piece may contain a character of sc, a literal character is
    symbolic, or an occurrence could straddle a symbolic piece that may be empty"""
    for p in s.pieces:
        if isinstance(p, list):
            if not all(isinstance(concrete(c), int) for c in p):
                return None
        elif not _excludes(p, sc):
            return None
    flat = []
    for i, p in enumerate(s.pieces):
        if isinstance(p, list):
            flat.extend((concrete(c), i, j) for j, c in enumerate(p))
        else:
            flat.append(None)
    m = len(sc)
    dense = [x for x in flat if x is not None]            # symbolic pieces taken as empty
    n_dense = sum(1 for i in range(len(dense) - m + 1) if [x[0] for x in dense[i:i + m]] == sc)
    occ = [i for i in range(len(flat) - m + 1)
           if all(x is not None for x in flat[i:i + m]) and [x[0] for x in flat[i:i + m]] == sc]
    if len(occ) != n_dense:
        return None                                       # an occurrence would appear if a symbolic piece were empty
    out, last_end = [], -1
    for i in occ:
        if i > last_end:
            out.append((flat[i][1], flat[i][2]))
            last_end = i + m - 1
    return out


def _split_struct(s: PStr, sc):
    """s.split(sc) decided on the piece structure: list of PStr, or None when the structure does not decide it.
    Adjacent literals are merged in a PStr, so an occurrence always lies inside one literal piece; the leftmost
    occurrence is cut out and the scan restarts on the remainder (Python's left-to-right, non-overlapping scan)."""
    parts, cur = [], s
    while True:
        occs = _structural_occurrences(cur, sc)
        if occs is None:
            return None
        if not occs:
            parts.append(cur)
            return parts
        pi, ci = occs[0]
        lit = cur.pieces[pi]
        parts.append(PStr(cur.pieces[:pi] + [lit[:ci]]))
        cur = PStr([lit[ci + len(sc):]] + cur.pieces[pi + 1:])


def _split(interp, s: SSeq, sep):
    sc = codes(sep)
    if not sc:
        raise Unsupported('str.split with a symbolic or empty separator')
    if len(set(sc)) != len(sc):
        raise Unsupported('str.split with a separator that can overlap itself')
    cs = pystr(s)
    if cs is not None:
        return B.PyList([SSeq.lift(p) for p in cs.split(''.join(chr(c) for c in sc))])
    if isinstance(s, PStr):
        parts = _split_struct(s, sc)
        if parts is not None:
            return B.PyList(parts)
    run = interp.run
    m = len(sc)
    n = to_z3(s.length)
    q = fresh_int('q')

    def occ(p):
        p = to_z3(p)
        return z3.And(p >= 0, p + m <= n, *[to_z3(s.get(p + i)) == sc[i] for i in range(m)])

    def only(p):
        return z3.And(occ(p), z3.ForAll([q], z3.Implies(occ(q), q == to_z3(p))))

    p0, q1, q2 = fresh_int('p'), fresh_int('q1'), fresh_int('q2')
    none = z3.ForAll([q], z3.Not(occ(q)))
    one = z3.Exists([p0], only(p0))
    many = z3.Exists([q1, q2], z3.And(q1 < q2, occ(q1), occ(q2)))
    w = run.decide(3, [none, one, many])
    if w == 0:
        run.assume(none)
        return B.PyList([s])
    if w == 2:
        run.assume(many)
        cnt = fresh_int('nparts')
        run.assume(cnt >= 3)
        return ManyParts(cnt)
    p = fresh_int('split')
    run.assume(only(p))
    return B.PyList([s.slice(None, p), s.slice(p + m, None)])


def _replace(interp, s: SSeq, old, new, *count):
    if count:
        raise Unsupported('str.replace with a count')
    oc, nc = codes(old), codes(new)
    if oc is None or nc is None or not oc:
        raise Unsupported('str.replace with symbolic or empty arguments')
    cs = pystr(s)
    if cs is not None:
        return SSeq.lift(cs.replace(''.join(map(chr, oc)), ''.join(map(chr, nc))))
    if isinstance(s, PStr):
        parts = _split_struct(s, oc)
        if parts is not None:                 # old is non-empty: s.replace(old, new) == new.join(s.split(old))
            pieces = []
            for i, part in enumerate(parts):
                if i:
                    pieces.append(list(nc))
                pieces.append(part)
            return PStr(pieces)
    if nc:
        raise Unsupported('str.replace with a non-empty replacement on a symbolic string')
    run = interp.run
    n = to_z3(s.length)
    if len(oc) == 1:
        c = oc[0]
        absent = s.forall(lambda k, e: to_z3(e) != c)
        if run.branch(absent):
            return s
        r = SSeq.fresh('stripped', kind='str')
        rn = to_z3(r.length)
        run.assume(z3.And(rn >= 0, rn < n))
        run.assume(r.forall(lambda k, e: z3.And(to_z3(e) != c, zbool(s.exists(lambda j, x: z_eq(x, e))))))
        run.assume(s.forall(lambda j, x: z3.Implies(to_z3(x) != c, zbool(r.exists(lambda k, e: z_eq(e, x))))))
        r.stripped_from = (s, c)
        return r
    if oc == [DOT, DOT, DOT]:
        nodot = s.forall(lambda k, e: to_z3(e) != DOT)
        if run.branch(nodot):
            return s

        def run_at(p):
            p = to_z3(p)
            return z_and(p >= 0, p + 3 <= n,
                         s.forall(lambda k, e: (to_z3(e) == DOT) == z3.And(p <= to_z3(k), to_z3(k) < p + 3)))
        p0 = fresh_int('p')
        cond = z3.Exists([p0], run_at(p0))
        if run.decide(2, [cond, z3.Not(cond)]) == 1:
            raise Unsupported("str.replace('...', '') on a string whose dots are not one run of three")
        p = fresh_int('dots')
        run.assume(run_at(p))
        return s.slice(None, p).concat(s.slice(p + 3, None))
    raise Unsupported(f'str.replace({old!r}, {new!r}) on a symbolic string')


# ---------------------------------------------------------------------------------------------- index
def _index(interp, s: SSeq, x):
    if isinstance(x, (str, SSeq)):
        xs = sym(x)
        if concrete(xs.length) != 1:
            raise Unsupported('str.index with a multi-character pattern on a symbolic string')
        x = xs.get(0)
    if not is_intlike(x):
        interp.raise_('TypeError', 'must be str')
    if not isinstance(s, PStr) or pystr(s) is not None:
        return B.seq_index(interp, s, x)
    run = interp.run
    present = s.exists(lambda k, e: z_eq(e, x))
    if present is False:
        interp.raise_('ValueError', 'substring not found')
    if present is not True and not run.branch(present):
        interp.raise_('ValueError', 'substring not found')
    # first occurrence, piece by piece: `here` = the piece holds x; the result is the offset of the first such piece
    # plus the first position inside it
    terms = []
    for p, off in zip(s.pieces, s.offs):
        if isinstance(p, list):
            here = z_or(*[z_eq(c, x) for c in p])
            pos = None
            for j in reversed(range(len(p))):
                pos = (off + j) if pos is None else z_ite(z_eq(p[j], x), off + j, pos)
        else:
            here = p.exists(lambda k, e: z_eq(e, x))
            j = fresh_int('idx')
            run.assume(z_implies(here, z_and(j >= 0, j < to_z3(p.length), z_eq(p.get(j), x),
                                             p.forall(lambda k, e: z_not(z_eq(e, x)), 0, j))))
            pos = j if _is0(off) else to_z3(off) + j
        terms.append((here, pos))
    out = None
    for here, pos in reversed(terms):
        out = pos if out is None else z_ite(here, pos, out)
    return out if isinstance(out, int) else _simp(out)


def str_method(interp, s, name):
    if name == 'split':
        return PyFunc(lambda interp, sep=None: _split(interp, s, sep), 'str.split')
    if name == 'replace':
        return PyFunc(lambda interp, old, new, *c: _replace(interp, s, old, new, *c), 'str.replace')
    if name == 'index':
        return PyFunc(lambda interp, x: _index(interp, s, x), 'str.index')
    return None


# ---------------------------------------------------------------------------------------------- f-strings
def joined_str(interp, e: ast.JoinedStr, fr):
    for v in e.values:
        if isinstance(v, ast.Constant) and isinstance(v.value, str):
            continue
        if isinstance(v, ast.FormattedValue) and v.conversion == -1 and v.format_spec is None:
            continue
        return None                                   # conversions / format specs: opaque (messages)
    vals = []
    for v in e.values:
        if isinstance(v, ast.Constant):
            vals.append(v.value)
            continue
        try:
            x = interp.ev(v.value, fr)
        except Unsupported:
            return None
        if isinstance(x, str) or (isinstance(x, SSeq) and x.kind == 'str'):
            vals.append(x)
        else:
            return None
    if all(isinstance(x, str) for x in vals):
        return ''.join(vals)
    return cat(*vals)


def install(T: Theory, modules=()):
    """str methods and f-strings everywhere; `set` / `list` of strings (CharSet / StrList) in the named repo modules"""
    T.str_method = str_method
    T.joined_str = joined_str
    for m in modules:
        T.module_overrides[(m, 'set')] = lambda interp: PyFunc(_set, 'set')
        T.module_overrides[(m, 'list')] = lambda interp: PyFunc(_list, 'list')
    return T

"""Index expressions, NumPy indexing, `jnp.unique` and `.at[].add`: the dependency contracts of C12 (and the
multiset part of C17's coverage histogram).

Vocabulary
  * `Idx` — uninterpreted sort of one index item; `kind(t)` ranges over the finite enumeration
    {int, slice (≠ slice(None)), fullslice (== slice(None)), ellipsis, intarray, mask}.  The Python tests the
    code applies to an item are mapped to it: `isinstance(t, int|slice|EllipsisType|jax.Array)`, `t is Ellipsis`,
    `t == slice(None)`, `t == Ellipsis` (tuple.index), `t.dtype == bool` (only for arrays).
  * `Mult(t, w)` — number of entries equal to `w` of the (flattened) integer-array index `t`: the index array is
    seen as a multiset, which is all `jnp.unique(..., return_counts=True)` depends on.  `Mult >= 0`.
    An array-valued item also has a symbolic shape: `idx_rank >= 1`, `idx_shape`, `idx_size` = product of the dims =
    number of entries (`.shape`, `.ndim`, `.size`); `jnp.unique` yields at most `idx_size` distinct values.
  * `XLeaf` — an array / ShapeDtypeStruct leaf (struct facet of theories/structs.py) that can be indexed.
  * `ArrV` — a 1-D integer-valued array in the element facet: (length, element function).

Assumed contracts (trusted base; `dep:` names in the evidence)
  * NumPy/JAX indexing `leaf[idx]`: result is the uninterpreted selection `leaf[idx]` of that leaf by that index
    tuple (basic and advanced indexing as NumPy defines it, negative entries wrap); what is proved is the wiring
    (which leaf, which tuple).  `jax.Array.__eq__` with a `slice` or `Ellipsis` operand is `False` (checked natively),
    so `tuple.index(Ellipsis)` / `index == slice(None)` never match an array item.
  * `jax.ShapeDtypeStruct.__len__` = `shape[0]` and raises `TypeError` for rank 0 (checked natively): this is the
    truth value of a single-leaf structure; a list/tuple/dict pytree is true iff non-empty.
  * `jax.eval_shape(f, s)`: the structure of `f(s)`; it HASHES `f`; hashing a bound method of an `equinox.Module`
    reads every declared (non-ClassVar) field of that module → `AttributeError` if one is not yet assigned
    (equinox 0.13.8, checked natively).
  * `jnp.unique(a, return_counts=True[, size=s, fill_value=f])`: with D = number of distinct values of the flattened
    `a`, the sorted distinct values UF[0] < … < UF[D-1] with their multiplicities; without `size` both results have
    length D; with `size=s` both have length s: entry j is (UF[j], Mult(UF[j])) for j < D and (f, 0) beyond —
    i.e. TRUNCATED to the s smallest distinct values when D > s, padded when D < s.  "Every occurring value is one of
    the UF[j]" is used through explicit instances at the values a pack talks about.
  * `index % n` (integer array, positive int): entries normalised into [0, n); multiset: Mult(index % n, w) =
    Mult(index, w) + Mult(index, w - n) for 0 <= w < n when the entries of `index` lie in [-n, n), 0 outside [0, n).
    (Not used by the unchanged tree; present so that a repair of the negative-alias defect stays decidable.)
  * `jnp.where(index <op> c, index + n, index)` on an integer-array index (used with `< 0`): entries u with u <op> c
    become u + n; multiset: Mult(result, w) = [not w <op> c] Mult(index, w) + [(w - n) <op> c] Mult(index, w - n) (exact).
  * `jax.tree.map(f, tree, *rest)` on container pytrees (list, tuple, dict, jdc.pytree_dataclass such as the Stokes
    containers): f applied leaf by leaf, same container (extends theories/structs.py).
  * `jnp.zeros(n, dtype)`: n zeros.  `x.at[U].add(C)` (hints `indices_are_sorted`, `unique_indices` ignored on CPU —
    checked natively): out[v] = x[v] + Σ_{j : nrm(U[j]) = v} C[j], where nrm(i) = i for 0 <= i < n, i + n for
    -n <= i < 0, and the entry is dropped otherwise.  The finite sum is the ghost `SSum(U, C, L, n, v)`.
  * `jnp.result_type(*leaves)`: an opaque promoted dtype.  `x.reshape(shape)` of an `ArrV`: same elements, row-major.
  * `BroadcastDiagonalOperator.__init__` (callee contract, furax code owned by the C11 pack): stores `diagonal`,
    `in_structure`, and turns a scalar `axis_destination` for a 1-D diagonal into the 1-tuple `(axis,)`.

Trusted lemmas (finite combinatorics; instantiated explicitly by the packs, named in `ck.trust`)
  * count-threshold: for a boolean sequence b, Count(b) >= 0; Count(b) >= 2 iff two distinct positions hold.
  * sum-support: a finite sum whose terms vanish outside two known positions a, b equals term(a) + term(b).
  * pigeonhole: D values with pairwise distinct images in [0, s) satisfy D <= s.
  * LA5 (DESIGN §3.2): a selection matrix times its adjoint is the identity iff no input element is selected twice.
"""
from __future__ import annotations

import itertools

import z3

from pyvc import builtins_model as B
from pyvc.theory import Theory
from pyvc.values import (ClassRef, Ext, BoundMethod, FuncRef, Obj, PyFunc, SSeq, Unsupported, Value, concrete,
                         fresh_const, fresh_int, fresh_name, is_intlike, is_z3, known, to_z3, z_and, z_eq, z_implies,
                         z_ite, z_not, z_or, zbool)
from theories import structs as ST

IntArr = z3.ArraySort(z3.IntSort(), z3.IntSort())
BoolArr = z3.ArraySort(z3.IntSort(), z3.BoolSort())

Idx = z3.DeclareSort('Idx')
Kind, (K_INT, K_SLICE, K_FULL, K_ELL, K_IARR, K_MASK) = z3.EnumSort(
    'IdxKind', ['k_int', 'k_slice', 'k_fullslice', 'k_ellipsis', 'k_intarray', 'k_mask'])
f_kind = z3.Function('kind', Idx, Kind)
Mult = z3.Function('Mult', Idx, z3.IntSort(), z3.IntSort())
IdxArr = z3.ArraySort(z3.IntSort(), Idx)
# Sel(t, n, w): how often position w of an axis of length n is selected by the item t when t is an int, a slice or a
# boolean mask (0 or 1: these kinds never select a position twice) — NumPy's indexing semantics, a dependency
Sel = z3.Function('Sel', Idx, z3.IntSort(), z3.IntSort(), z3.IntSort())
# shape of an array-valued index item (integer array or mask): rank >= 1, dims >= 0, size = number of entries
f_irank = z3.Function('idx_rank', Idx, z3.IntSort())
f_ishape = z3.Function('idx_shape', Idx, IntArr)
f_isize = z3.Function('idx_size', Idx, z3.IntSort())


def idx_shape_facts(t):
    """well-formedness of the shape of an array-valued index item (instances for ranks 1..3; any rank >= 1 allowed)"""
    r, sh, n = f_irank(t), f_ishape(t), f_isize(t)
    k = fresh_int('k')
    return z3.And(r >= 1, n >= 0, z3.ForAll([k], z3.Implies(z3.And(0 <= k, k < r), sh[k] >= 0)),
                  z3.Implies(r == 1, n == sh[0]), z3.Implies(r == 2, n == sh[0] * sh[1]),
                  z3.Implies(r == 3, n == sh[0] * sh[1] * sh[2]))


def same_idx_shape(a, b):
    return z3.And(f_irank(a) == f_irank(b), f_ishape(a) == f_ishape(b), f_isize(a) == f_isize(b))
CountB = z3.Function('CountB', BoolArr, z3.IntSort(), z3.IntSort())        # number of True among b[0:n]
SSum = z3.Function('SSum', IntArr, IntArr, z3.IntSort(), z3.IntSort(), z3.IntSort(), z3.IntSort())


Rank = z3.Function('Rank', IdxArr, z3.IntSort(), z3.IntSort(), z3.IntSort(), z3.IntSort())


def rank_step(arr, n, e, p):
    """unfolding of the definition of Rank at p: Rank(p) = number of positions q < p, q != e, q < n, whose index is
    not slice(None)"""
    n, e, p = to_z3(n), to_z3(e), to_z3(p)
    return Rank(arr, n, e, p + 1) == Rank(arr, n, e, p) + z3.If(z3.And(p != e, p < n, f_kind(arr[p]) != K_FULL), 1, 0)


def rank_unfold(run, arr, n, e, points):
    """Rank is DEFINED by Rank(0) = 0 and rank_step at every p >= 0 (a recursive definition, hence conservative);
    the instances a proof needs are stated explicitly instead of a quantified axiom (no matching loop)"""
    run.assume(Rank(arr, to_z3(n), to_z3(e), 0) == 0)
    for p in points:
        p = z3.simplify(to_z3(p))
        run.assume(z3.Implies(p >= 0, rank_step(arr, n, e, p)))


def is_int(t):
    return f_kind(t) == K_INT


def is_slice(t):
    return z3.Or(f_kind(t) == K_SLICE, f_kind(t) == K_FULL)


def is_full(t):
    return f_kind(t) == K_FULL


def is_ell(t):
    return f_kind(t) == K_ELL


def is_iarr(t):
    return f_kind(t) == K_IARR


def is_mask(t):
    return f_kind(t) == K_MASK


def is_array(t):
    return z3.Or(is_iarr(t), is_mask(t))


def is_basic(t):
    """int, slice, ellipsis or boolean mask: the kinds that can never select an element twice"""
    return z3.Not(is_iarr(t))


def mult_axioms():
    t = z3.Const('t!ax', Idx)
    w = z3.Int('w!ax')
    n = z3.Int('n!ax')
    return [z3.ForAll([t, w], Mult(t, w) >= 0, patterns=[Mult(t, w)]),
            z3.ForAll([t, n, w], z3.And(Sel(t, n, w) >= 0, Sel(t, n, w) <= 1), patterns=[Sel(t, n, w)])]


# ------------------------------------------------------------------------------------------ values
class IdxV(Value):
    """one index item"""

    def __init__(self, term):
        self.term = term

    def __repr__(self):
        return f'<idx {self.term}>'

    def _match(self, other):
        if other is Ellipsis:
            return is_ell(self.term)
        if isinstance(other, slice):
            if other.start is None and other.stop is None and other.step is None:
                return is_full(self.term)
            raise Unsupported('comparison of an index item with a slice other than slice(None)')
        if isinstance(other, IdxV):
            return self.term == other.term
        if other is None:
            return False
        raise Unsupported(f'comparison of an index item with {other!r}')

    def sym_eq(self, other):
        return self._match(other)

    def py_eq(self, interp, other):
        return self._match(other)

    def ite_merge(self, c, other, self_is_then):
        if not isinstance(other, IdxV):
            raise Unsupported('ite of index item and something else')
        a, b = (self, other) if self_is_then else (other, self)
        return IdxV(z3.If(c, a.term, b.term))

    def py_binop(self, interp, op, other, refl):
        """`index % n` for an integer array and a positive int n: every entry is normalised into [0, n).  In the
        multiset view: Mult(index % n, w) = Σ_j Mult(index, w + j n) for 0 <= w < n, else 0; the terms with j other
        than 0 and -1 vanish for an in-bounds index array (entries in [-n, n))."""
        if op == 'Add' and is_intlike(other) and known(is_iarr(self.term)) is True:
            return IdxElemwise('add', self.term, 'Add', other)      # index + c, element-wise (for jnp.where)
        if op != 'Mod' or refl or not is_intlike(other):
            from pyvc.values import NOT_IMPLEMENTED
            return NOT_IMPLEMENTED
        run = interp.run
        interp.used_externals.add('jax.Array.__mod__')
        t, n = self.term, to_z3(other)
        run.oblige(f'{interp.cur_name()}/pre:modulo-of-an-integer-array-by-a-positive-int', z3.And(is_iarr(t), n >= 1), kind='pre')
        r = fresh_const('normalised', Idx)
        w, u = fresh_int('w'), fresh_int('u')
        inb = z3.ForAll([u], z3.Implies(Mult(t, u) > 0, z3.And(-n <= u, u < n)))
        run.assume(is_iarr(r))
        run.assume(same_idx_shape(r, t))
        run.assume(z3.ForAll([w], z3.Implies(z3.Or(w < 0, w >= n), Mult(r, w) == 0), patterns=[Mult(r, w)]))
        run.assume(z3.Implies(inb, z3.ForAll([w], z3.Implies(z3.And(0 <= w, w < n), Mult(r, w) == Mult(t, w) + Mult(t, w - n)),
                                             patterns=[Mult(r, w)])))
        out = IdxV(r)
        out.normalised_from = (self, other)
        return out

    def py_compare(self, interp, op, other, refl):
        """`index < c` on an integer array: the element-wise test, kept symbolic for jnp.where"""
        if refl or not is_intlike(other) or known(is_iarr(self.term)) is not True:
            from pyvc.values import NOT_IMPLEMENTED
            return NOT_IMPLEMENTED
        return IdxElemwise('cmp', self.term, op, other)

    def py_getattr(self, interp, name):
        if name == 'dtype':
            # only arrays have a dtype; the code guards the access with isinstance(_, Array)
            if known(is_array(self.term)) is not True:
                raise Unsupported('.dtype of an index item not known to be an array')
            return IdxDType(self.term)
        if name in ('shape', 'size', 'ndim'):
            if known(is_array(self.term)) is not True:
                raise Unsupported(f'.{name} of an index item not known to be an array')
            t = self.term
            interp.run.assume(idx_shape_facts(t))
            if name == 'size':
                return f_isize(t)
            if name == 'ndim':
                return f_irank(t)
            sh = f_ishape(t)
            return SSeq(f_irank(t), lambda k: sh[to_z3(k)], 'tuple')
        raise Unsupported(f'attribute {name} of an index item')


class ArangeV(Value):
    """jnp.arange(n); only `jnp.arange(n)[item]` is modelled: the integer array of the positions an int / slice / mask
    item selects along an axis of length n — multiset view: Mult(result, w) = Sel(item, n, w) for 0 <= w < n, else 0"""

    def __init__(self, n):
        self.n = n

    def py_getitem(self, interp, idx):
        if not isinstance(idx, IdxV):
            raise Unsupported('jnp.arange(n)[...] with something else than one index item')
        run = interp.run
        interp.used_externals.add('numpy-indexing jnp.arange(n)[item]')
        t, n = idx.term, to_z3(self.n)
        run.oblige(f'{interp.cur_name()}/pre:arange-indexed-by-an-int-slice-or-mask',
                   z3.Or(is_int(t), is_slice(t), is_full(t), is_mask(t)), kind='pre')
        r = fresh_const('positions', Idx)
        run.assume(is_iarr(r))
        run.assume(idx_shape_facts(r))
        out = IdxV(r)
        out.mult = lambda w: z3.If(z3.And(0 <= w, w < n), Sel(t, n, w), 0)
        out.positions_of = (idx, self.n)
        return out


class IdxElemwise(Value):
    """an element-wise expression over an integer-array index, consumed by jnp.where: ('cmp', t, op, c) = `t <op> c`,
    ('add', t, 'Add', c) = `t + c`"""

    def __init__(self, what, term, op, const):
        self.what, self.term, self.op, self.const = what, term, op, const


def mult_of(v):
    """multiplicity function of an integer-array index item"""
    m = getattr(v, 'mult', None)
    if m is not None:
        return m
    t = v.term
    return lambda w: Mult(t, w)


def where_shifted(run, t, op, c, n, base=None):
    """jnp.where(index <op> c, index + n, index): entries u with `u <op> c` become u + n, the others are kept.
    Multiset view (exact): Mult(result, w) = [not (w <op> c)] Mult(index, w) + [(w - n) <op> c] Mult(index, w - n)"""
    n, c = to_z3(n), to_z3(c)
    cond = {'Lt': lambda u: u < c, 'LtE': lambda u: u <= c, 'Gt': lambda u: u > c, 'GtE': lambda u: u >= c}[op]
    base = base or (lambda w: Mult(t, w))
    r = fresh_const('wrapped', Idx)
    run.assume(is_iarr(r))
    run.assume(same_idx_shape(r, t))            # element-wise: same shape, same number of entries
    # the multiset of the result is given as a closed expression over the multiset of the operand (no axiom: a quantified
    # definition of Mult(r, .) in terms of Mult(t, .) defeats the solver's model finder)
    return r, (lambda w: z3.If(cond(w), 0, base(w)) + z3.If(cond(w - n), base(w - n), 0))


class IdxDType(Value):
    def __init__(self, term):
        self.term = term

    def py_eq(self, interp, other):
        if isinstance(other, PyFunc) and other.name == 'bool':
            return is_mask(self.term)
        raise Unsupported(f'dtype comparison with {other!r}')


def idx_seq(S, name):
    return S.seq(name, kind='tuple', sort=Idx, wrap=IdxV)


def as_idx_seq(interp, idx) -> SSeq:
    if isinstance(idx, IdxV):
        return SSeq.lift((idx,))
    s = B.as_seq_or_none(interp, idx)
    if s is None:
        raise Unsupported(f'index expression {idx!r}')
    return s


def idx_seq_eq(a: SSeq, b: SSeq):
    return z_and(z_eq(a.length, b.length), a.forall(lambda k, e: e.term == b.get(k).term))


class XLeaf(ST.LeafV):
    """array / ShapeDtypeStruct leaf that supports NumPy indexing (uninterpreted selection) and truth testing"""

    @staticmethod
    def fresh(name='leaf'):
        return XLeaf(fresh_const(name, ST.Leaf))

    def py_getitem(self, interp, idx):
        interp.used_externals.add('numpy-indexing x[idx]')
        r = XLeaf.fresh('indexed')
        r.indexed_from = (self, as_idx_seq(interp, idx))
        interp.run.assume(ST.f_dtype(r.term) == ST.f_dtype(self.term))
        return r

    def truth(self, interp):
        # jax.ShapeDtypeStruct defines __len__ (= shape[0]; TypeError for rank 0) and no __bool__
        interp.used_externals.add('jax.ShapeDtypeStruct.__len__')
        if interp.run.branch(ST.f_ndim(self.term) == 0):
            interp.raise_('TypeError', 'len() of unsized object')
        return ST.f_shape(self.term)[0] != 0

    def ite_merge(self, c, other, self_is_then):
        raise Unsupported('ite of leaves')


class ArrV(Value):
    """1-D integer-valued array in the element facet"""

    def __init__(self, length, elems, dtype=None):
        self.length, self.elems, self.dtype = length, elems, dtype
        self.ghost: dict = {}

    def __repr__(self):
        return f'<arr len={self.length}>'

    def py_getattr(self, interp, name):
        if name == 'at':
            return _At(self)
        if name == 'size':
            return self.length
        if name == 'ndim':
            return 1
        if name == 'shape':
            return SSeq.lift((self.length,))
        if name == 'dtype':
            return self.dtype
        if name == 'reshape':
            def reshape(interp, *shape):
                interp.used_externals.add('Array.reshape')
                r = ArrV(self.length, self.elems, self.dtype)
                r.ghost = dict(self.ghost)
                r.ghost['reshaped_to'] = shape[0] if len(shape) == 1 else tuple(shape)
                r.ghost['reshaped_from'] = self
                return r
            return PyFunc(reshape, 'Array.reshape')
        raise Unsupported(f'array attribute {name}')


class _At(Value):
    def __init__(self, arr):
        self.arr = arr

    def py_getitem(self, interp, idx):
        return _AtIdx(self.arr, idx)


def nrm(i, n):
    """position addressed by index entry i in an axis of length n; -1 = dropped (out of range)"""
    return z3.If(z3.And(i >= 0, i < n), i, z3.If(z3.And(i < 0, i >= -n), i + n, -1))


class _AtIdx(Value):
    def __init__(self, arr, idx):
        self.arr, self.idx = arr, idx

    def py_getattr(self, interp, name):
        if name != 'add':
            raise Unsupported(f'.at[].{name}')

        def add(interp, vals, indices_are_sorted=False, unique_indices=False, mode=None):
            interp.used_externals.add('jax.Array.at[].add')
            if mode is not None or not isinstance(self.idx, ArrV) or not isinstance(vals, ArrV):
                raise Unsupported('.at[idx].add(vals) outside the modelled form')
            run = interp.run
            base, U, C = self.arr, self.idx, vals
            run.oblige(f'{interp.cur_name()}/pre:at-add-operands-have-equal-length', z_eq(U.length, C.length), kind='pre')
            n = to_z3(base.length)
            out = z3.Const(fresh_name('scattered'), IntArr)
            v = fresh_int('v')
            run.assume(z3.ForAll([v], z3.Implies(z3.And(0 <= v, v < n), out[v] == base.elems[v] + SSum(
                U.elems, C.elems, to_z3(U.length), n, v)), patterns=[out[v]]))
            r = ArrV(base.length, out, base.dtype)
            r.ghost = {'scatter': {'base': base, 'U': U, 'C': C}}
            return r
        return PyFunc(add, 'at[].add')


def sum_support(U, C, L, n, v, a, b):
    """instance of lemma sum-support for SSum(U, C, L, n, v) with candidate positions a, b"""
    L, n, v, a, b = to_z3(L), to_z3(n), to_z3(v), to_z3(a), to_z3(b)
    j = fresh_int('j')
    term = lambda p: z3.If(z3.And(0 <= p, p < L, nrm(U[p], n) == v), C[p], 0)      # noqa: E731
    prem = z3.ForAll([j], z3.Implies(z3.And(0 <= j, j < L, j != a, j != b, nrm(U[j], n) == v), C[j] == 0))
    return z3.Implies(prem, SSum(U, C, L, n, v) == term(a) + z3.If(a == b, 0, term(b)))


def pigeonhole(UF, D, n):
    """instance of lemma pigeonhole: D values with pairwise distinct positions nrm(.) in [0, n) are at most n"""
    i, j = fresh_int('i'), fresh_int('j')
    return z3.Implies(z3.And(
        z3.ForAll([j], z3.Implies(z3.And(0 <= j, j < D), z3.And(0 <= nrm(UF[j], n), nrm(UF[j], n) < n))),
        z3.ForAll([i, j], z3.Implies(z3.And(0 <= i, i < j, j < D), nrm(UF[i], n) != nrm(UF[j], n)))), D <= n)


def unique_contract(run, mult, size=None, fill=None):
    """dependency contract of jnp.unique(a, return_counts=True[, size, fill_value]) over the multiset `mult`"""
    D = fresh_int('ndistinct')
    UF = z3.Const(fresh_name('distinct'), IntArr)
    Pos = z3.Function(fresh_name('posof'), z3.IntSort(), z3.IntSort())
    i, j, w = fresh_int('i'), fresh_int('j'), fresh_int('w')
    run.assume(D >= 0)
    run.assume(z3.ForAll([i, j], z3.Implies(z3.And(0 <= i, i < j, j < D), UF[i] < UF[j])))
    run.assume(z3.ForAll([j], z3.Implies(z3.And(0 <= j, j < D), mult(UF[j]) > 0), patterns=[UF[j]]))
    # every occurring value w is one of the distinct values, at position Pos(w).  This clause of the contract is used
    # through explicit instances (ghost['member'](w), assumed by the packs at the values they talk about): as a quantified
    # hypothesis over mult(w) — which may mention Mult at shifted arguments — it defeats the solver's model finder.
    member = lambda x: z3.Implies(mult(x) > 0, z3.And(0 <= Pos(x), Pos(x) < D, UF[Pos(x)] == x))      # noqa: E731
    ghost = {'D': D, 'UF': UF, 'Pos': Pos, 'mult': mult, 'size': size, 'fill': fill, 'member': member}
    if size is None:
        Ce = z3.Const(fresh_name('counts'), IntArr)
        run.assume(z3.ForAll([j], z3.Implies(z3.And(0 <= j, j < D), Ce[j] == mult(UF[j])), patterns=[Ce[j]]))
        U, C = ArrV(D, UF), ArrV(D, Ce)
    else:
        n = to_z3(size)
        f = to_z3(fill if fill is not None else 0)
        Ue = z3.Const(fresh_name('uniq'), IntArr)
        Ce = z3.Const(fresh_name('counts'), IntArr)
        run.assume(z3.ForAll([j], z3.Implies(z3.And(0 <= j, j < n), Ue[j] == z3.If(j < D, UF[j], f)), patterns=[Ue[j]]))
        run.assume(z3.ForAll([j], z3.Implies(z3.And(0 <= j, j < n), Ce[j] == z3.If(j < D, mult(UF[j]), 0)),
                             patterns=[Ce[j]]))
        U, C = ArrV(size, Ue), ArrV(size, Ce)
    U.ghost = {'unique': ghost}
    C.ghost = {'unique': ghost}
    return U, C


class DTypeTok(Value):
    def __init__(self, of=None):
        self.of = of


def count_true(run, seq: SSeq):
    """ghost count of the True entries of a boolean sequence, with the count-threshold lemma instances"""
    arr, ax = seq.to_array(z3.BoolSort(), unwrap=lambda x: zbool(x) if not isinstance(x, bool) else z3.BoolVal(x))
    for a in ax:
        run.assume(a)
    n = to_z3(seq.length)
    c = CountB(arr, n)
    i, j = fresh_int('i'), fresh_int('j')
    run.assume(c >= 0)
    run.assume((c >= 1) == z3.Exists([i], z3.And(0 <= i, i < n, arr[i])))
    run.assume((c >= 2) == z3.Exists([i, j], z3.And(0 <= i, i < j, j < n, arr[i], arr[j])))
    return c


def diagonal_init_contract(interp, fi, args, kwargs):
    """callee contract of BroadcastDiagonalOperator.__init__ (the function is under contract in the C11 pack): for a 1-D
    diagonal and a scalar axis the stored axis_destination is the 1-tuple (axis,)"""
    o, diagonal = args[0], args[1]
    axis = kwargs.get('axis_destination', -1)
    if not isinstance(diagonal, ArrV) or not is_intlike(axis):
        raise Unsupported('DiagonalOperator(...) outside the form used by TransposeIndexRule')
    o.fields['_diagonal'] = diagonal
    o.fields['axis_destination'] = (axis,)
    o.fields['_in_structure'] = kwargs['in_structure']
    return None


DIAGONAL_INIT = 'furax._base.diagonal.BroadcastDiagonalOperator.__init__'


# ------------------------------------------------------------------------------------------ installation
def install(T: Theory):
    ST.install(T)

    def _isinstance(interp, v, c):
        if not isinstance(v, IdxV):
            return None
        t = v.term
        if isinstance(c, PyFunc):
            if c.name == 'int':
                return is_int(t)
            if c.name == 'slice':
                return is_slice(t)
            if c.name in ('tuple', 'list', 'str', 'dict', 'bool', 'float'):
                return False
        if isinstance(c, Ext):
            if c.path == 'types.EllipsisType':
                return is_ell(t)
            if c.path in ('jax.Array', 'jax.numpy.ndarray'):
                return is_array(t)
        return None
    T.isinstance_handlers.append(_isinstance)

    def _identical(interp, a, b):
        for x, y in ((a, b), (b, a)):
            if isinstance(x, IdxV):
                if y is Ellipsis:
                    return is_ell(x.term)
                if isinstance(y, IdxV):
                    return x.term == y.term
                return False
        return None
    T.identical_handlers.append(_identical)

    def seq_sum(interp, seq, start=0):
        """sum(<bool> for x in symbolic-length sequence): a count"""
        e = seq.get(fresh_int('probe'))
        if not (isinstance(e, bool) or z3.is_bool(e)):
            raise Unsupported('sum over a symbolic-length sequence of non-booleans')
        return interp.binop('Add', start, count_true(interp.run, seq))
    T.seq_sum = seq_sum

    @T.ext('jax.eval_shape')
    def _eval_shape(interp, f, *args):
        # hashing f: a bound method of an equinox Module hashes the module, i.e. reads every declared field
        if isinstance(f, BoundMethod) and isinstance(f.self_val, Obj):
            o = f.self_val
            for fld in o.cls.all_fields():
                interp.obj_getattr(o, fld.name)         # AttributeError when not assigned yet
        return interp.call(f, list(args), {})

    @T.ext('jax.numpy.unique')
    def _unique(interp, a, return_counts=False, size=None, fill_value=None, **kw):
        if kw or return_counts is not True:
            raise Unsupported('jnp.unique outside the modelled form (return_counts=True[, size, fill_value])')
        run = interp.run
        if isinstance(a, IdxV):
            run.oblige(f'{interp.cur_name()}/pre:unique-of-an-integer-array', is_iarr(a.term), kind='pre')
            run.assume(is_iarr(a.term))
            t = a.term
            mult = mult_of(a)
            nentries = f_isize(t)
            run.assume(idx_shape_facts(t))
        elif hasattr(a, 'mult'):
            mult = a.mult
            nentries = getattr(a, 'n', None)
        else:
            raise Unsupported(f'jnp.unique of {a!r}')
        U, C = unique_contract(run, mult, size, fill_value)
        if nentries is not None:
            run.assume(U.ghost['unique']['D'] <= to_z3(nentries))      # no more distinct values than entries
        return (U, C)

    @T.ext('jax.numpy.where')
    def _where(interp, c, a, b):
        # the normalisation of negative entries and its variants: jnp.where(index <op> c, index + n, index)
        if (isinstance(c, IdxElemwise) and c.what == 'cmp' and c.op in ('Lt', 'LtE', 'Gt', 'GtE')
                and isinstance(a, IdxElemwise) and a.what == 'add' and isinstance(b, IdxV)
                and z3.eq(c.term, a.term) and z3.eq(c.term, b.term)):
            r, m = where_shifted(interp.run, b.term, c.op, c.const, a.const, mult_of(b))
            out = IdxV(r)
            out.mult = m
            out.normalised_from = (b, a.const)
            return out
        raise Unsupported('jnp.where outside the modelled form where(index <op> c, index + n, index)')

    base_map = T.externals['jax.tree.map']

    def _is_pytree_dataclass(ci):
        import ast as _ast
        return any(_ast.unparse(d).endswith('pytree_dataclass') for c in ci.mro for d in c.decorators)

    @T.ext('jax.tree.map', 'jax.tree_util.tree_map')
    def _map(interp, f, tree, *rest, is_leaf=None):
        """container pytrees: f is applied leaf by leaf (fields of a jdc.pytree_dataclass in declaration order, items
        of a list / tuple, values of a dict), the result has the same container; extra trees must have the same
        container type and arity"""
        def sub(i, key):
            out = []
            for r in rest:
                if isinstance(tree, Obj):
                    if not (isinstance(r, Obj) and r.cls is tree.cls):
                        raise Unsupported('tree.map: mismatching trees')
                    out.append(r.fields[key])
                elif isinstance(tree, dict):
                    if not (isinstance(r, dict) and list(r) == list(tree)):
                        raise Unsupported('tree.map: mismatching trees')
                    out.append(r[key])
                else:
                    items = r.items if isinstance(r, B.PyList) else r
                    if type(r) is not type(tree) or (isinstance(r, B.PyList) and r.seq is not None) or len(items) != n:
                        raise Unsupported('tree.map: mismatching trees')
                    out.append(items[i])
            return out
        if isinstance(tree, Obj) and _is_pytree_dataclass(tree.cls):
            names = [fl.name for fl in tree.cls.all_fields()]
            new = Obj(tree.cls)
            for i, nm in enumerate(names):
                new.fields[nm] = _map(interp, f, interp.obj_getattr(tree, nm), *sub(i, nm), is_leaf=is_leaf)
            return new
        if isinstance(tree, B.PyList) and tree.seq is None:
            n = len(tree.items)
            return B.PyList([_map(interp, f, x, *sub(i, None), is_leaf=is_leaf) for i, x in enumerate(tree.items)])
        if isinstance(tree, tuple):
            n = len(tree)
            return tuple(_map(interp, f, x, *sub(i, None), is_leaf=is_leaf) for i, x in enumerate(tree))
        if isinstance(tree, dict):
            return {k: _map(interp, f, x, *sub(i, k), is_leaf=is_leaf) for i, (k, x) in enumerate(tree.items())}
        return base_map(interp, f, tree, *rest, is_leaf=is_leaf)

    @T.ext('jax.numpy.reshape')
    def _reshape(interp, x, shape, *a, **k):
        """jnp.reshape(x, shape): the functional spelling of x.reshape(shape)"""
        if a or k:
            raise Unsupported('jnp.reshape with order / extra arguments')
        return interp.call(interp.getattr(x, 'reshape'), [shape], {})

    @T.ext('jax.numpy.zeros')
    def _zeros(interp, shape, dtype=None):
        if not is_intlike(shape):
            raise Unsupported('jnp.zeros with a non-scalar shape')
        return ArrV(shape, z3.K(z3.IntSort(), z3.IntVal(0)), dtype)

    @T.ext('jax.numpy.result_type')
    def _result_type(interp, *leaves):
        return DTypeTok(leaves)

    @T.ext('jax.numpy.arange')
    def _arange(interp, n, *a, **k):
        if a or k or not is_intlike(n):
            raise Unsupported('jnp.arange outside the modelled form arange(n)')
        return ArangeV(n)

    return T


def theory():
    T = Theory()
    install(T)
    return T

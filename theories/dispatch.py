"""functools.singledispatch and the lineax tag functions, as theory objects (C08).

Assumed contracts (trusted base):
  * functools.singledispatch function g: `g.registry` is a mapping class -> implementation, initially {object: the
    undecorated function}; `g.register(cls)(fn)` (or g.register(cls, fn)) sets registry[cls] = fn and returns fn;
    `g.dispatch(cls)` / a call g(x) with type(x) = cls selects the implementation registered for the first class
    of cls's MRO that is in the registry (most specific registered class; `object` last).
  * lineax declares is_diagonal, is_lower_triangular, is_upper_triangular, is_tridiagonal, is_symmetric,
    is_positive_semidefinite, is_negative_semidefinite, linearise and conj as singledispatch functions whose `object`
    implementation raises NotImplementedError, and pre-registers them only for its own concrete operator classes
    (LINEAX_CLASSES; checked natively by oracles/C08.py::lineax_registry).  None of these classes is a base of a
    furax class: furax operators derive from lineax.AbstractLinearOperator only.
"""
from __future__ import annotations

from pyvc.theory import Theory
from pyvc.values import ClassRef, ExcVal, Ext, Obj, PyFunc, PyRaise, Unsupported, Value

TAGS = ['is_diagonal', 'is_lower_triangular', 'is_upper_triangular', 'is_tridiagonal', 'is_symmetric',
        'is_positive_semidefinite', 'is_negative_semidefinite']
DISPATCHED = TAGS + ['linearise', 'conj']
LINEAX_CLASSES = ['AddLinearOperator', 'ComposedLinearOperator', 'DiagonalLinearOperator', 'DivLinearOperator',
                  'FunctionLinearOperator', 'IdentityLinearOperator', 'JacobianLinearOperator', 'MatrixLinearOperator',
                  'MulLinearOperator', 'NegLinearOperator', 'PyTreeLinearOperator', 'TaggedLinearOperator',
                  'TangentLinearOperator', 'TridiagonalLinearOperator']
OBJECT = Ext('builtins.object')


class ExtClass(Ext):
    """an external class object: attributes may be assigned (recorded in the run's ghost state)"""

    def py_setattr(self, interp, name, v):
        interp.run.ghost.setdefault('ext_class_attrs', {})[(self.path, name)] = v


class SingleDispatchV(Value):
    def __init__(self, name):
        self.name = name
        self.registry = {OBJECT: PyFunc(self._default, f'{name}[object]')}
        for c in LINEAX_CLASSES:
            self.registry[ExtClass(f'lineax.{c}')] = PyFunc(self._lineax_impl, f'{name}[lineax.{c}]')
        self.log = []            # (class, fn) in registration order

    def __repr__(self):
        return f'<singledispatch lineax.{self.name}>'

    def _default(self, interp, *a):
        raise PyRaise(ExcVal('NotImplementedError'))

    def _lineax_impl(self, interp, *a):
        raise Unsupported('lineax implementation of a tag for a lineax operator')

    def register(self, interp, cls, fn):
        if not isinstance(cls, (ClassRef, Ext)):
            interp.raise_('TypeError', 'register() expects a class')
        self.registry[cls] = fn
        self.log.append((cls, fn))
        return fn

    def dispatch(self, interp, cls):
        """(registered class, implementation) for a class value"""
        if isinstance(cls, ClassRef):
            for c in cls.info.mro:
                k = ClassRef(c)
                if k in self.registry:
                    return k, self.registry[k]
            for b in cls.info.ext_bases:
                k = ExtClass(b)
                if k in self.registry:
                    return k, self.registry[k]
            return OBJECT, self.registry[OBJECT]
        if isinstance(cls, Ext):
            if cls in self.registry:
                return cls, self.registry[cls]
            return OBJECT, self.registry[OBJECT]
        raise Unsupported(f'dispatch on {cls!r}')

    def py_getattr(self, interp, name):
        if name == 'registry':
            return self.registry
        if name == 'register':
            def register(interp, cls, fn=None):
                if fn is not None:
                    return self.register(interp, cls, fn)
                return PyFunc(lambda interp, f: self.register(interp, cls, f), f'{self.name}.register({cls!r})')
            return PyFunc(register, f'{self.name}.register')
        if name == 'dispatch':
            return PyFunc(lambda interp, cls: self.dispatch(interp, cls)[1], f'{self.name}.dispatch')
        raise Unsupported(f'singledispatch attribute {name}')

    def py_call(self, interp, args, kwargs):
        x = args[0]
        if not isinstance(x, Obj):
            raise Unsupported(f'tag query on {x!r}')
        return interp.call(self.dispatch(interp, ClassRef(x.cls))[1], list(args), kwargs)


def functions(interp):
    """the singledispatch objects of this run (one set per path)"""
    g = interp.run.ghost
    if 'dispatch' not in g:
        g['dispatch'] = {n: SingleDispatchV(n) for n in DISPATCHED}
    return g['dispatch']


def install(T: Theory):
    prev = T.ext_value

    def ext_value(interp, path):
        if path.startswith('lineax.'):
            n = path[len('lineax.'):]
            if n in DISPATCHED:
                return functions(interp)[n]
            if n in LINEAX_CLASSES or n == 'AbstractLinearOperator':
                return ExtClass(path)
        return prev(interp, path)
    T.ext_value = ext_value
    return T

"""`static` facet (C18): every value is Static or Traced.

  Traced : array VALUES — the operator input and everything computed from it (origin 'input'), and the array
           fields of the operator and everything computed only from them (origin 'param': constants under a
           jit that closes over the operator, tracers under a filtering jit that takes it as an argument).
  Static : everything else — Python ints / bools / strs / None, tuples of those, shapes, dtypes, ndim, size,
           len(), static fields, ShapeDtypeStructs, treedefs.

Trace-safety obligations (kind `static`) are produced
  * at every truth test of the interpreter (if / while / assert / and / or / not / conditional expression /
    comprehension filter): the tested value must be Static;
  * at int() / float() / bool() / range() / iteration / len() of a value: must be Static (len of an array is its
    leading dimension: Static);
  * at the shape-like arguments of the array primitives listed in STATIC_ARGS (reshape sizes, zeros/arange/eye
    sizes, pad widths, fft length, moveaxis axes, einsum subscripts, dynamic_slice sizes, fori_loop bounds,
    vectorize signature, ...);
  * at boolean-mask selection x[mask]: the result shape depends on the mask VALUES.  The property excludes
    mask selection from the filtering-jit clause only: it is accepted (recorded as `mask-exception`) when the
    mask has origin 'param' (a constant under closure-jit) and refuted when it derives from the input.

Assumed contracts (trusted base), one line each — S = what is Static, T = what is Traced:
  array +,-,*,/,**,@,neg,abs,comparisons,&,|     T result; no operand needs to be Static
  .shape .ndim .size .dtype len()                S (a fresh unknown shape per array: this facet proves nothing about shapes)
  .T .real .ravel() .astype() .copy()            T
  .reshape(*sizes)                               sizes S
  x[i] (ints, slices, Ellipsis, None, int arrays) T; slice bounds S; a bool array: mask selection (above)
  x.at[i].set/add/...(v)                         T
  jnp.cos sin sqrt abs where add subtract multiply asarray array astype concatenate stack hstack vstack
      convolve diag matmul dot vdot real conj    T (axis / dtype / mode keywords S)
  jnp.sum max min any all mean prod argmax argmin count_nonzero ceil floor   T (axis / dtype / keepdims S)
  jnp.zeros ones empty full eye identity arange  sizes S; result T (staged under jit)
  jnp.pad(x, widths)                             widths S
  jnp.moveaxis(x, src, dst)                      src, dst S
  jnp.einsum(subscripts, *ops)                   subscripts S
  jnp.broadcast_shapes(*shapes)                  all S; S result or ValueError
  jnp.broadcast_to(x, shape)                     shape S
  jnp.fft.fft/ifft(x, n)                         n S
  jnp.vectorize(f, signature=)                   signature S; the result applies f once to core slices of its arguments
  lax.dynamic_slice(x, starts, sizes)            sizes S (starts may be Traced); dynamic_update_slice: nothing S
  lax.fori_loop(lo, hi, body, init)              lo, hi S (the property's "static loop bounds"); body(i, carry) with i Traced
  jax.linear_transpose(f, *structs)              traces f once on arrays of the given structures; returns a function
                                                 giving a tuple of trees of the structures
  lx.linear_solve / TaggedLinearOperator / jax.debug.callback   as in theories/context.py; the solve traces the
                                                 operand's mv (trace-safe by its own obligations); result T
  np.ceil / np.log2 / int / float on S numbers   S;  on a Traced value: refused (TracerArrayConversionError)
  jax.dtypes.canonicalize_dtype(d)               d when 64-bit mode is on (symbolic Bool X64), else the 32-bit counterpart
                                                 narrow(d) for 64-bit dtypes (is64(d)) and d for the others; dtypes are
                                                 opaque tokens; numpy.float64 / int64 / uint64 / complex128 are 64-bit
"""
from __future__ import annotations

from fractions import Fraction

import z3

from pyvc import builtins_model as B
from pyvc.theory import Theory
from pyvc.values import (NOT_IMPLEMENTED, ClassRef, Ext, Obj, Partial, PyFunc, SSeq, Unsupported, Value, concrete,
                         fresh_bool, fresh_int, is_z3, to_z3)
from theories import pytree as PT


X64 = z3.Bool('x64')                      # jax_enable_x64, symbolic
_DT = z3.DeclareSort('AnyValue')         # same sort as theories.context.AnyS (opaque Python values)
is64 = z3.Function('is64', _DT, z3.BoolSort())
narrow = z3.Function('narrow', _DT, _DT)
NARROW_NAMES = {'float64': 'float32', 'int64': 'int32', 'uint64': 'uint32', 'complex128': 'complex64'}


def _meta(interp, note=None, finding=None):
    S = getattr(interp.run, '_S', None)
    m = {}
    if S is not None:
        m = {'inputs': dict(S.inputs), 'func': S.func_name, 'scenario': S.label}
        if S.oracle:
            m['oracle'] = S.oracle
    if note:
        m['note'] = note
    if finding:
        m['finding'] = finding
    g = interp.run.ghost
    g['static_n'] = g.get('static_n', 0) + 1
    m['ordinal'] = 100000 + g['static_n']
    return m


def ob(interp, tag, goal, note=None):
    interp.run.oblige(f'{interp.cur_name()}/static:{tag}', goal, kind='static', meta=_meta(interp, note))
    if goal is False:
        interp.run.ghost.setdefault('static_failures', []).append(tag)


def count(interp, what):
    g = interp.run.ghost.setdefault('static_counts', {})
    g[what] = g.get(what, 0) + 1


class DType(Value):
    def __init__(self, name='dtype'):
        self.name = name

    def py_eq(self, interp, other):
        if isinstance(other, DType) and other is self:
            return True
        return fresh_bool('dtype_eq')          # Static, unknown

    def py_getattr(self, interp, name):
        if name in ('kind', 'name', 'itemsize'):
            return self
        raise Unsupported(f'dtype.{name}')


class SDS(Value):
    """jax.ShapeDtypeStruct: Static"""

    def __init__(self, shape=None):
        self._shape = shape
        self.dtype = DType()

    def shape(self, interp=None):
        if self._shape is None:
            self._shape = fresh_shape(None, interp)
        return self._shape

    def py_getattr(self, interp, name):
        if name == 'shape':
            return self.shape(interp)
        if name == 'ndim':
            return self.shape(interp).length
        if name == 'size':
            return fresh_nat('size')
        if name == 'dtype':
            return self.dtype
        raise Unsupported(f'ShapeDtypeStruct.{name}')


def fresh_nat(base):
    return fresh_int(base)


def fresh_shape(ndim=None, interp=None):
    s = SSeq.fresh('shape', kind='tuple', length=ndim)
    if interp is not None and ndim is None:
        interp.run.assume(to_z3(s.length) >= 0)
    return s


class TArr(Value):
    """an array whose VALUE is traced.  origin: 'input' | 'param'.  kind: 'bool' | 'int' | 'num'"""

    def __init__(self, origin='input', kind='num', shape=None, dyn_shape=False, what='array'):
        self.origin, self.kind, self._shape, self.dyn_shape, self.what = origin, kind, shape, dyn_shape, what
        self.dtype = DType()

    def __repr__(self):
        return f'<traced {self.what} origin={self.origin} kind={self.kind}>'

    # ---- Static projections
    def shape(self, interp):
        if self.dyn_shape:
            ob(interp, 'shape-of-mask-selected-array-used', False, note='the shape of x[mask] depends on the mask values')
        if self._shape is None:
            self._shape = fresh_shape(None, interp)
        return self._shape

    def py_len(self, interp):
        count(interp, 'len(array)')
        return B.getitem(interp, self.shape(interp), 0)

    def py_getattr(self, interp, name):
        if name == 'shape':
            return self.shape(interp)
        if name == 'ndim':
            return self.shape(interp).length
        if name == 'size':
            n = fresh_nat('size')
            interp.run.assume(n >= 0)
            return n
        if name == 'dtype':
            return self.dtype
        if name in ('T', 'real', 'imag', 'mT'):
            return derive(self, what=f'{self.what}.{name}')
        if name in ('ravel', 'copy', 'conj', 'flatten', 'squeeze', 'sum', 'astype', 'transpose'):
            return PyFunc(lambda interp, *a, **k: (check_static(interp, f'Array.{name}', a, k, None),
                                                   derive(self, what=f'{self.what}.{name}()'))[1], f'Array.{name}')
        if name == 'reshape':
            def reshape(interp, *a, **k):
                check_static(interp, 'Array.reshape', a, k, 'all')
                return derive(self, what='reshaped')
            return PyFunc(reshape, 'Array.reshape')
        if name == 'at':
            return AtV(self)
        raise Unsupported(f'array attribute {name}')

    # ---- operations: result Traced
    def py_binop(self, interp, op, other, refl):
        if isinstance(other, (Obj,)):
            return NOT_IMPLEMENTED
        return join(self, other, kind='bool' if op in ('BitAnd', 'BitOr', 'BitXor') and self.kind == 'bool' else 'num')

    def py_unop(self, interp, op):
        return derive(self, kind=self.kind if op == 'Invert' else 'num')

    def py_compare(self, interp, op, other, refl):
        return join(self, other, kind='bool')

    def py_eq(self, interp, other):
        return join(self, other, kind='bool')

    def py_ne(self, interp, other):
        return join(self, other, kind='bool')

    def py_getitem(self, interp, idx):
        items = idx if isinstance(idx, tuple) else (idx,)
        if isinstance(idx, SSeq):
            items = tuple(idx.py_items())
        origin = self.origin
        dyn = self.dyn_shape
        for it in items:
            if isinstance(it, TArr):
                origin = 'input' if 'input' in (origin, it.origin) else origin
                if it.kind == 'bool':
                    if it.origin == 'param':
                        count(interp, 'mask-exception')
                        ob(interp, 'mask-exception:boolean-mask-is-an-operator-parameter (closure-jit only)', True)
                    else:
                        ob(interp, 'boolean-mask-selection-with-a-mask-computed-from-the-input', False)
                    dyn = True
            elif isinstance(it, slice):
                for b in (it.start, it.stop, it.step):
                    need_static(interp, b, 'slice-bound')
            elif it is Ellipsis or it is None or isinstance(it, (int, bool)) or is_z3(it):
                pass
            else:
                raise Unsupported(f'array index {it!r}')
        return TArr(origin, self.kind, dyn_shape=dyn, what='indexed')

    # ---- uses that need a concrete value
    def truth(self, interp):
        ob(interp, f'branch-on-the-value-of-a-traced-array ({self.what})', False)
        return fresh_bool('traced_truth')

    def py_int(self, interp):
        ob(interp, f'int()-of-a-traced-array ({self.what})', False)
        return fresh_int('traced_int')

    def py_iter(self, interp, expect=None):
        ob(interp, f'python-iteration-over-a-traced-array ({self.what})', False)
        raise Unsupported('iteration over a traced array')


class AtV(Value):
    def __init__(self, arr):
        self.arr = arr

    def py_getitem(self, interp, idx):
        base = self.arr
        sel = base.py_getitem(interp, idx)

        class Upd(Value):
            def py_getattr(s, interp, name):
                if name in ('set', 'add', 'multiply', 'min', 'max', 'get'):
                    return PyFunc(lambda interp, *a, **k: join(sel, a[0] if a else None, what=f'at[].{name}'), 'at.' + name)
                raise Unsupported(f'at[].{name}')
        return Upd()


def origin_of(*vs):
    o = 'param'
    for v in vs:
        if isinstance(v, TArr) and v.origin == 'input':
            o = 'input'
    return o


def contains_traced(v):
    if isinstance(v, TArr):
        return True
    if isinstance(v, (tuple, list)):
        return any(contains_traced(x) for x in v)
    if isinstance(v, B.PyList):
        return v.seq is None and any(contains_traced(x) for x in v.items)
    if isinstance(v, dict):
        return any(contains_traced(x) for x in v.values())
    if isinstance(v, SSeq):
        if hasattr(v, 'items'):
            return any(contains_traced(x) for x in v.items)
        segs = getattr(v, 'segs', None)
        if segs is not None:           # assembled by concatenation: literal items are recorded in the provenance
            return any(sg[0] == 'item' and contains_traced(sg[1]) for sg in segs)
        if v.is_concrete_len():
            return any(contains_traced(x) for x in v.py_items())
        # symbolic length, provenance lost: probe the generic element; a traced array cannot be merged into a term
        try:
            return contains_traced(v.get(fresh_int('probe')))
        except Unsupported:
            return True
    return False


def traced_in(v):
    out = []

    def rec(x):
        if isinstance(x, TArr):
            out.append(x)
        elif isinstance(x, (tuple, list)):
            [rec(y) for y in x]
        elif isinstance(x, B.PyList) and x.seq is None:
            [rec(y) for y in x.items]
        elif isinstance(x, dict):
            [rec(y) for y in x.values()]
        elif isinstance(x, SSeq):
            if hasattr(x, 'items'):
                [rec(y) for y in x.items]
            elif getattr(x, 'segs', None) is not None:
                [rec(sg[1]) for sg in x.segs if sg[0] == 'item']
        elif isinstance(x, Obj):
            [rec(y) for y in x.fields.values() if not isinstance(y, Obj)]
    rec(v)
    return out


def derive(a: TArr, kind=None, what='derived'):
    return TArr(a.origin, kind or a.kind, dyn_shape=a.dyn_shape, what=what)


def join(a, b, kind='num', what='result'):
    ts = traced_in((a, b))
    return TArr(origin_of(*ts), kind, dyn_shape=any(t.dyn_shape for t in ts), what=what)


def need_static(interp, v, what):
    if contains_traced(v):
        ob(interp, f'{what}-must-be-static', False, note=f'got {(traced_in(v) or [v])[0]!r}')
        return False
    return True


# which arguments of an array primitive must be Static: positions (ints), keyword names, or 'all' / 'rest:<n>'
STATIC_ARGS = {
    'jax.numpy.zeros': ([0], ['shape', 'dtype']), 'jax.numpy.ones': ([0], ['shape', 'dtype']),
    'jax.numpy.empty': ([0], ['shape', 'dtype']), 'jax.numpy.full': ([0], ['shape', 'dtype']),
    'jax.numpy.eye': ([0, 1], ['dtype']), 'jax.numpy.identity': ([0], ['dtype']),
    'jax.numpy.arange': ('all', ['dtype']),
    'jax.numpy.pad': ([1], ['mode', 'pad_width']),
    'jax.numpy.moveaxis': ([1, 2], ['source', 'destination']),
    'jax.numpy.broadcast_to': ([1], ['shape']),
    'jax.numpy.fft.fft': ([1, 2], ['n', 'axis']), 'jax.numpy.fft.ifft': ([1, 2], ['n', 'axis']),
    'jax.numpy.convolve': ([], ['mode']),
    'jax.numpy.concatenate': ([1], ['axis', 'dtype']), 'jax.numpy.stack': ([1], ['axis']),
    'jax.numpy.hstack': ([], ['dtype']), 'jax.numpy.vstack': ([], ['dtype']),
    'jax.numpy.asarray': ([1], ['dtype']), 'jax.numpy.array': ([1], ['dtype']), 'jax.numpy.astype': ([1], ['dtype']),
    'jax.numpy.diag': ([1], ['k']),
    'jax.lax.dynamic_slice': ([2], ['slice_sizes']),
    'jax.lax.dynamic_update_slice': ([], []),
    'jax.scipy.linalg.block_diag': ([], []),
}
ELEMENTWISE = ['cos', 'sin', 'sqrt', 'abs', 'where', 'add', 'subtract', 'multiply', 'divide', 'negative', 'real', 'conj',
               'matmul', 'dot', 'vdot', 'exp', 'log', 'round', 'arccos', 'arctan2', 'isscalar_dummy']


REDUCTIONS = ['sum', 'max', 'min', 'any', 'all', 'mean', 'prod', 'argmax', 'argmin', 'count_nonzero', 'ceil', 'floor']


def check_static(interp, path, args, kwargs, spec):
    if spec is None:
        return
    pos, kws = spec if isinstance(spec, tuple) else (spec, [])
    n = 0
    for i, a in enumerate(args):
        if pos == 'all' or (isinstance(pos, list) and i in pos):
            n += 1
            if need_static(interp, a, f'{path.rsplit(".", 1)[-1]}-argument-{i}'):
                ob(interp, f'{path.rsplit(".", 1)[-1]}-argument-{i}-is-static', True)
    for k, a in kwargs.items():
        if k in kws:
            if need_static(interp, a, f'{path.rsplit(".", 1)[-1]}-{k}'):
                ob(interp, f'{path.rsplit(".", 1)[-1]}-{k}-is-static', True)


class SolutionV(Value):
    def __init__(self, value):
        self.value = value

    def py_getattr(self, interp, name):
        if name == 'value':
            return self.value
        if name in ('stats', 'result', 'state'):
            return {}
        raise Unsupported(f'Solution.{name}')


def like(interp, tree, origin='input'):
    """a tree of fresh traced arrays with the tree structure of `tree` (leaves: arrays or ShapeDtypeStructs)"""
    return PT.tree_map(interp, PyFunc(lambda interp, leaf: TArr(origin, what='fresh'), 'fresh'), tree)


def install(T: Theory, instrument=True):
    PT.install(T)

    def prim(path, spec):
        def h(interp, *a, **k):
            check_static(interp, path, a, k, spec)
            ts = traced_in((a, list(k.values())))
            return TArr(origin_of(*ts), 'num', dyn_shape=any(t.dyn_shape for t in ts), what=path.rsplit('.', 1)[-1])
        return h
    for p, spec in STATIC_ARGS.items():
        T.externals[p] = prim(p, spec)
    for n in ELEMENTWISE:
        T.externals['jax.numpy.' + n] = prim('jax.numpy.' + n, ([], []))
    for n in REDUCTIONS:
        T.externals['jax.numpy.' + n] = prim('jax.numpy.' + n, ([1], ['axis', 'dtype', 'keepdims']))

    @T.ext('jax.numpy.einsum')
    def _einsum(interp, subscripts, *ops, **k):
        if need_static(interp, subscripts, 'einsum-subscripts'):
            ob(interp, 'einsum-subscripts-are-static', True)
        return join(ops, None, what='einsum')

    @T.ext('jax.numpy.broadcast_shapes')
    def _bshapes(interp, *shapes):
        if need_static(interp, shapes, 'broadcast_shapes-arguments'):
            ob(interp, 'broadcast_shapes-arguments-are-static', True)
        if interp.run.decide(2) == 1:
            interp.raise_('ValueError', 'incompatible shapes for broadcasting')
        return fresh_shape(None, interp)

    @T.ext('jax.numpy.isscalar')
    def _isscalar(interp, v):
        return not isinstance(v, (TArr, Obj, tuple, list, B.PyList, dict))

    @T.ext('jax.numpy.vectorize')
    def _vectorize(interp, f=None, **k):
        check_static(interp, 'jax.numpy.vectorize', (), k, ([], ['signature', 'excluded']))

        def wrap(fn):
            def call(interp, *args, **kw):
                core = [TArr(a.origin, a.kind, shape=fresh_shape(1), what=f'core slice of {a.what}')
                        if isinstance(a, TArr) else a for a in args]
                r = interp.call(fn, core, kw)
                return join(traced_in(r), None, what='vectorized result')
            return PyFunc(call, 'vectorized')
        if f is None:
            return PyFunc(lambda interp, fn: wrap(fn), 'vectorize()')
        return wrap(f)

    @T.ext('jax.lax.fori_loop')
    def _fori(interp, lo, hi, body, init, **k):
        ok = need_static(interp, (lo, hi), 'fori_loop-bounds')
        if ok:
            ob(interp, 'fori_loop-bounds-are-static', True)
        i = TArr('input', 'int', shape=fresh_shape(0), what='loop index')
        # one abstract iteration: the body is traced once by jax
        r = interp.call(body, [i, init], {})
        return r

    @T.ext('jax.linear_transpose')
    def _lt(interp, f, *structs):
        # jax traces f once on abstract arrays of the given structures
        prim_args = [like(interp, s) for s in structs]
        interp.call(f, prim_args, {})

        def ct(interp, y):
            return tuple(like(interp, s) for s in structs)
        return PyFunc(ct, 'linear_transpose(f)')

    @T.ext('jax.eval_shape')
    def _eval_shape(interp, f, *args):
        r = interp.call(f, [like(interp, a) for a in args], {})
        return PT.tree_map(interp, PyFunc(lambda interp, leaf: SDS(), 'sds'), r)

    @T.ext('jax.ShapeDtypeStruct')
    def _sds(interp, shape, dtype, **k):
        need_static(interp, shape, 'ShapeDtypeStruct-shape')
        return SDS(B.as_seq(interp, shape))

    # lineax / callbacks (InverseOperator.mv)
    @T.ext('lineax.TaggedLinearOperator')
    def _tagged(interp, op, tag):
        return ('tagged', op, tag)

    @T.ext('lineax.linear_solve')
    def _solve(interp, A, b, **k):
        for name in ('solver', 'throw', 'options'):
            if name in k and isinstance(k[name], TArr):
                ob(interp, f'linear_solve-{name}-must-be-static', False)
        op = A[1] if isinstance(A, tuple) else A
        # the solver traces the operand's mv (its own trace-safety obligations) on b-like arrays
        if isinstance(op, Obj):
            interp.call(interp.getattr(op, 'mv'), [like(interp, b)], {})
        return SolutionV(like(interp, b))

    @T.ext('jax.debug.callback')
    def _cb(interp, f, *a, **k):
        return None
    T.ext_values['lineax.positive_semidefinite_tag'] = Ext('lineax.positive_semidefinite_tag')

    @T.ext('jax.dtypes.canonicalize_dtype')
    def _canon(interp, d, *a, **k):
        if isinstance(d, Ext):                      # a concrete dtype object such as numpy.float64
            name = d.path.rsplit('.', 1)[-1]
            if name not in NARROW_NAMES:
                return d
            if interp.run.branch(X64):
                return d
            return Ext(d.path.rsplit('.', 1)[0] + '.' + NARROW_NAMES[name])
        if is_z3(d) and d.sort() == _DT:
            return z3.If(X64, d, z3.If(is64(d), narrow(d), d))
        raise Unsupported(f'canonicalize_dtype of {d!r}')

    @T.ext('numpy.ceil')
    def _ceil(interp, v):
        if isinstance(v, TArr):
            ob(interp, 'numpy-function-applied-to-a-traced-array', False)
            return fresh_int('ceil')
        c = concrete(v)
        if c is not None:
            import math
            return Fraction(math.ceil(c))
        r = B.to_real(v)
        return -z3.ToReal(z3.ToInt(-r))

    @T.ext('numpy.log2')
    def _log2(interp, v):
        if isinstance(v, TArr):
            ob(interp, 'numpy-function-applied-to-a-traced-array', False)
        return z3.ToReal(fresh_int('log2'))

    # isinstance(x, lx.AbstractLinearOperator / jax.Array) for arrays and containers
    def isinst(interp, v, c):
        if isinstance(v, (TArr, SDS, DType, PT.TreeDefV, SolutionV)):
            if isinstance(c, Ext):
                return isinstance(v, TArr) and c.path in ('jax.Array', 'jax.numpy.ndarray', 'jaxtyping.Array')
            if isinstance(c, ClassRef):
                return False
            if isinstance(c, PyFunc):
                return False
        if isinstance(c, Ext) and isinstance(v, (list, B.PyList)):
            return False
        return None
    T.isinstance_handlers.append(isinst)

    def filt(interp, e, g, seq, fr, elt_fn, kind):
        """[k for k, v in Counter(s).items() if v > 1] over a symbolic sequence: a list that is non-empty iff s has a
        duplicate (stdlib contract of collections.Counter)"""
        from pyvc.theory import DistinctSeq
        if isinstance(seq, DistinctSeq):
            out = SSeq.fresh('dups', kind='list')
            interp.run.assume(z3.And(to_z3(out.length) >= 0, (to_z3(out.length) > 0) == seq.has_dup()))
            return out
        return None
    T.filter_comprehension = filt

    def instance_cached(interp, o, name, value):
        """functools.cached_property stores its value on the instance: a value computed from traced data would leak a
        tracer out of the trace (the next eager application, or another trace of the same object, reads it back)"""
        if contains_traced(value):
            ob(interp, f'value-cached-on-the-operator-({name})-must-be-static', False,
               note=f'got {(traced_in(value) or [value])[0]!r}')
    T.instance_cached = instance_cached
    return T


def instrument(interp):
    """wrap the interpreter's truth test: every tested value must be Static (instance-level hook, no engine edit)"""
    orig = interp.truth_term

    def truth_term(v):
        if isinstance(v, TArr):
            return v.truth(interp)
        if contains_traced(v):
            ob(interp, 'branch-on-a-container-of-traced-arrays', False)
        else:
            count(interp, 'conditions')
            ob(interp, 'condition-is-static', True)
        return orig(v)
    interp.truth_term = truth_term

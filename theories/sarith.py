"""`struct` facet with element-wise arithmetic (C05): arrays / ShapeDtypeStructs are theories/structs.py leaves (symbolic
rank, symbolic dimension sizes) whose dtype is tied to the finite dtype model of theories/dtypes.py through
`dtype_code : DType -> DTypeE` (a bijection: axioms below); a leaf may be WEAKLY typed (0-d results of jnp.asarray(2.)).

Assumed dependency contracts (trusted base):
  * a ∘ b for ∘ in + - * / ** and jnp.add/subtract/multiply/divide: shape = NumPy broadcasting of the two shapes
    (right-aligned, a dimension 1 stretches, otherwise equal; incompatible shapes raise ValueError — JAX raises TypeError or
    ValueError depending on the primitive; only "raises" matters here); dtype = JAX promotion (dtypes.promote; a weakly
    typed operand — Python scalar or weak 0-d array — against a strongly typed one: dtypes.promote_weak);
    `/` of integer dtypes gives the default float dtype (dtypes.true_div_weak_int / float_fn).
  * -a, +a: same shape and dtype.   jnp.cos / sin / sqrt / exp / ...: same shape, dtype dtypes.float_fn.
  * jnp.zeros / ones / empty (shape[, dtype]): the shape; dtype = canon(dtype), WITHOUT dtype the default float dtype
    (float32, float64 with the 64-bit flag).
  * M @ x for a (sparse) matrix M of shape (r, c) and a 1-D x: requires len(x) == c (else TypeError); result shape (r,),
    dtype = promotion.  M.T: shape (c, r), same dtype.
  * jax.linear_transpose(f, s)(y): a tuple with one pytree of the structure s (shapes AND dtypes of s) — for linear f whose
    output structure y matches;  lx.linear_solve(A, b, ...).value: a pytree with the structure A.in_structure() (the unknown
    of A u = b lives in A's input space);  jax.eval_shape(f, s): the structure of f(arrays of structure s).
"""
from __future__ import annotations

from fractions import Fraction

import z3

from pyvc import builtins_model as B
from pyvc.theory import Theory
from pyvc.values import (NOT_IMPLEMENTED, Obj, PyFunc, SSeq, Unsupported, Value, concrete, fresh_const, fresh_int,
                         is_z3, to_z3, z_and, z_eq, zbool)
from theories import arrays as AR
from theories import dtypes as D
from theories import structs as ST

code = z3.Function('dtype_code', ST.DType, D.DT)
dt_of = z3.Function('dtype_of_code', D.DT, ST.DType)
f_weak = z3.Function('weak_type', ST.Leaf, z3.BoolSort())


def axioms():
    d = z3.Const('d!dt', ST.DType)
    e = z3.Const('e!dt', D.DT)
    return [z3.ForAll([d], dt_of(code(d)) == d, patterns=[code(d)]), z3.ForAll([e], code(dt_of(e)) == e, patterns=[dt_of(e)])]


def dcode(leaf):
    return code(ST.f_dtype(leaf.term))


class SLeaf(ST.LeafV):
    """an array (or ShapeDtypeStruct) in the struct facet, with arithmetic"""

    @staticmethod
    def fresh(name='arr'):
        return SLeaf(fresh_const(name, ST.Leaf))

    def py_getattr(self, interp, name):
        if name in ('T', 'real', 'imag'):
            if name == 'T':
                raise Unsupported('array transpose in the struct facet')
            return self
        if name == 'astype':
            return PyFunc(lambda interp, dt: mk(interp, self.shape, D.canon(code(dt))), 'Array.astype')
        r = super().py_getattr(interp, name)
        return r

    def py_binop(self, interp, op, other, refl):
        if isinstance(other, Obj):
            return NOT_IMPLEMENTED
        if op not in ('Add', 'Sub', 'Mult', 'Div', 'Pow'):
            return NOT_IMPLEMENTED
        return elementwise(interp, op, self, other)

    def py_unop(self, interp, op):
        if op in ('USub', 'UAdd'):
            return mk(interp, self.shape, dcode(self), weak=f_weak(self.term))
        raise Unsupported(f'unary {op} on an array (struct facet)')


def as_sleaf(v):
    if isinstance(v, ST.LeafV) and not isinstance(v, SLeaf):
        return SLeaf(v.term)
    return v


def mk(interp, shape: SSeq, dc, weak=False):
    """a fresh array leaf with the given shape (sequence of Int) and dtype code"""
    run = interp.run
    r = SLeaf.fresh('res')
    t = r.term
    n = to_z3(shape.length)
    k = fresh_int('k')
    run.assume(z3.And(ST.f_ndim(t) == n, n >= 0, ST.f_dtype(t) == dt_of(dc), code(ST.f_dtype(t)) == dc,
                      ST.f_isarray(t), f_weak(t) == zbool(weak) if not isinstance(weak, bool) else f_weak(t) == weak,
                      ST.f_size(t) == ST.Pprod(ST.f_shape(t), 0, n), ST.f_size(t) >= 0))
    cn = concrete(shape.length)
    if cn is not None:
        for i in range(cn):
            run.assume(ST.f_shape(t)[i] == to_z3(shape.get(i)))
    else:
        run.assume(z3.ForAll([k], z3.Implies(z3.And(0 <= k, k < n), ST.f_shape(t)[k] == to_z3(shape.get(k))),
                             patterns=[ST.f_shape(t)[k]]))
    return r


def scalar_kind(v):
    if isinstance(v, bool):
        return None
    if isinstance(v, int) or (is_z3(v) and isinstance(v, z3.ArithRef) and v.is_int()):
        return 'int'
    if isinstance(v, (float, Fraction)) or (is_z3(v) and isinstance(v, z3.ArithRef) and v.is_real()):
        return 'float'
    if isinstance(v, complex):
        return 'complex'
    return None


def weak_kind_table(d):
    """promotion of a WEAK array of dtype code d against ... : its kind"""
    return z3.If(z3.Or(d == D.I32, d == D.I64), 0, z3.If(z3.Or(d == D.F32, d == D.F64), 1,
                 z3.If(z3.Or(d == D.C64, d == D.C128), 2, 3)))       # 3: bool (never weak)


def promote_leaves(a: SLeaf, b: SLeaf):
    """(dtype code, weak flag) of an element-wise operation on two arrays, weak types included"""
    da, db = dcode(a), dcode(b)
    wa, wb = f_weak(a.term), f_weak(b.term)
    strong = D.promote(da, db)

    def weak_vs(dw, ds):
        k = weak_kind_table(dw)
        return z3.If(k == 0, D.promote_weak('int', ds), z3.If(k == 1, D.promote_weak('float', ds),
                     z3.If(k == 2, D.promote_weak('complex', ds), strong)))
    dc = z3.If(z3.And(wa, z3.Not(wb)), weak_vs(da, db), z3.If(z3.And(wb, z3.Not(wa)), weak_vs(db, da), strong))

    def stays_weak(dw, ds):
        # JAX's lattice: a weak scalar of a HIGHER kind than a strongly typed bool / integer operand gives a weak result
        # (i32 v f* = f*, bool v i* = i*, i32 v c* = c*); against a float / complex operand the result is strong
        kw = weak_kind_table(dw)
        ks = z3.If(ds == D.BOOL, -1, z3.If(z3.Or(ds == D.I32, ds == D.I64), 0, 1))
        return z3.And(ks <= 0, ks < kw, kw <= 2)
    weak = z3.Or(z3.And(wa, wb), z3.And(wa, z3.Not(wb), stays_weak(da, db)), z3.And(wb, z3.Not(wa), stays_weak(db, da)))
    return z3.simplify(dc), z3.simplify(weak)


def broadcast(interp, s1: SSeq, s2: SSeq):
    """NumPy broadcasting of two shapes; raises ValueError when incompatible"""
    if s1 is s2:
        return s1
    c1, c2 = concrete(s1.length), concrete(s2.length)
    if c1 == 0:
        return s2
    if c2 == 0:
        return s1
    t1, t2 = getattr(s1, 'arr', None), getattr(s2, 'arr', None)
    if t1 is not None and t2 is not None and z3.eq(t1, t2) and z3.eq(to_z3(s1.length), to_z3(s2.length)):
        return s1
    # when one shape is known (path condition) to broadcast TO the other, the result IS the other: smaller terms
    def stretches_to(small, big):
        ns, nb = to_z3(small.length), to_z3(big.length)
        k = fresh_int('k')
        return z3.And(ns <= nb, z3.ForAll([k], z3.Implies(z3.And(0 <= k, k < ns), z3.Or(
            to_z3(small.get(ns - 1 - k)) == to_z3(big.get(nb - 1 - k)), to_z3(small.get(ns - 1 - k)) == 1))))
    if not interp.run.feasible(z3.Not(stretches_to(s2, s1))):
        return s1
    if not interp.run.feasible(z3.Not(stretches_to(s1, s2))):
        return s2
    N, a, b = AR.broadcast_terms(s1, s2)
    i = fresh_int('i')
    ok = z3.ForAll([i], z3.Implies(z3.And(0 <= i, i < N), z3.Or(a(i) == b(i), a(i) == 1, b(i) == 1)))
    if not interp.run.branch(ok):
        interp.raise_('ValueError', 'incompatible shapes for broadcasting')
    return SSeq(z3.simplify(N), lambda k: z3.If(a(k) == 1, b(k), a(k)), 'tuple')


def elementwise(interp, op, x, y):
    """x ∘ y with at least one array operand"""
    x, y = as_sleaf(x), as_sleaf(y)
    if isinstance(x, SLeaf) and isinstance(y, SLeaf):
        shape = broadcast(interp, x.shape, y.shape)
        dc, weak = promote_leaves(x, y)
    else:
        arr, sc = (x, y) if isinstance(x, SLeaf) else (y, x)
        kind = scalar_kind(sc)
        if kind is None:
            raise Unsupported(f'arithmetic of an array with {sc!r} (struct facet)')
        shape = arr.shape
        da = dcode(arr)
        dc = D.promote_weak(kind, da)
        weak = f_weak(arr.term)
    if op == 'Div':
        dc = z3.If(D.is_inexact(dc), dc, D.true_div_weak_int(dc))
    return mk(interp, shape, z3.simplify(dc), weak=weak)


class CsrV(Value):
    """a (sparse) matrix: shape (nrows, ncols) and a dtype"""

    def __init__(self, nrows, ncols, dtype):
        self.nrows, self.ncols, self.dtype = nrows, ncols, dtype

    def py_getattr(self, interp, name):
        if name == 'shape':
            return (self.nrows, self.ncols)
        if name == 'dtype':
            return self.dtype
        if name == 'T':
            return CsrV(self.ncols, self.nrows, self.dtype)
        raise Unsupported(f'matrix attribute {name}')

    def py_binop(self, interp, op, other, refl):
        if op != 'MatMult' or refl or not isinstance(as_sleaf(other), SLeaf):
            return NOT_IMPLEMENTED
        x = as_sleaf(other)
        ok = z3.And(ST.f_ndim(x.term) == 1, ST.f_shape(x.term)[0] == to_z3(self.ncols))
        if not interp.run.branch(ok):
            interp.raise_('TypeError', 'matrix @ vector: shapes do not match')
        return mk(interp, SSeq.lift((self.nrows,)), D.promote(code(self.dtype), dcode(x)))


FLOAT_FNS = ['cos', 'sin', 'tan', 'sqrt', 'exp', 'log', 'arccos', 'arcsin', 'arctan']


def install(T: Theory):
    """arithmetic only — the pack composes this with the pytree handlers it needs (structs/trees or pytree)"""
    AR_bs = None
    for n in FLOAT_FNS:
        T.externals['jax.numpy.' + n] = (lambda n: lambda interp, x: mk(interp, as_sleaf(x).shape, D.float_fn(dcode(as_sleaf(x)))))(n)
    T.externals['jax.numpy.add'] = lambda interp, a, b: elementwise(interp, 'Add', a, b)
    T.externals['jax.numpy.subtract'] = lambda interp, a, b: elementwise(interp, 'Sub', a, b)
    T.externals['jax.numpy.multiply'] = lambda interp, a, b: elementwise(interp, 'Mult', a, b)
    T.externals['jax.numpy.divide'] = lambda interp, a, b: elementwise(interp, 'Div', a, b)

    def ctor(interp, shape, dtype=None, **k):
        sh = B.as_seq(interp, shape) if not B.is_intlike(shape) else SSeq.lift((shape,))
        dc = z3.If(D.X64, D.F64, D.F32) if dtype is None else D.canon(code(dtype))
        return mk(interp, SSeq(sh.length, sh.get, 'tuple'), z3.simplify(dc))
    for n in ('zeros', 'ones', 'empty'):
        T.externals['jax.numpy.' + n] = ctor

    @T.ext('jax.numpy.broadcast_shapes')
    def _bs(interp, s1, s2):
        return broadcast(interp, AR.as_tuple_seq(interp, s1), AR.as_tuple_seq(interp, s2))
    _ = AR_bs
    return T

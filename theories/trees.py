"""Pytree dependency contracts for trees with a symbolic number of leaves (on top of theories/structs.py), and the
wiring token of jnp.einsum.

Assumed contracts (trusted base):
  * jax.tree.structure(t): the treedef of t; jax.tree_util.treedef_is_leaf(td): td is the treedef of a single leaf
    (an array / ShapeDtypeStruct); a container (list, dict, ...) is not a leaf.
  * jax.tree.flatten(t) = (leaves in pytree order, treedef); jax.tree.unflatten(treedef, leaves): the tree with that
    treedef and those leaves (same number of leaves required).
  * jax.tree.map(f, t, *rest): same treedef as t, k-th leaf = f(t_k, rest_k...); every tree of `rest` must have t's
    treedef (obligation `pre:tree.map`); f is applied leaf by leaf, independently.
  * jax.tree.all(t): conjunction of the truth values of the leaves.
  * jnp.einsum(subscripts, a, b): an uninterpreted result that records its three arguments (wiring facet: which
    arrays are contracted under which subscripts; the numerical meaning of einsum is the dependency).
"""
from __future__ import annotations

import z3

from pyvc import builtins_model as B
from pyvc.theory import Theory
from pyvc.values import SSeq, Unsupported, Value, concrete, fresh_int, to_z3, z_and, z_eq
from theories import structs as ST


class TreedefV(Value):
    def __init__(self, tree):
        self.tree = tree


class EinsumV(Value):
    """jnp.einsum(subscripts, a, b)"""

    def __init__(self, subscripts, a, b):
        self.args = (subscripts, a, b)


CONTAINERS = (list, tuple, dict, B.PyList, SSeq)


def is_single_leaf(t):
    if isinstance(t, ST.StructV):
        return t.single
    if isinstance(t, CONTAINERS) or t is None:
        raise Unsupported(f'pytree container {t!r}')
    return True          # any array-like value (of whatever facet) is a leaf


def install(T: Theory):
    old_map = T.externals.get('jax.tree.map')

    @T.ext('jax.tree.structure', 'jax.tree_util.tree_structure')
    def _structure(interp, tree):
        return TreedefV(tree)

    @T.ext('jax.tree_util.treedef_is_leaf')
    def _is_leaf(interp, td):
        if not isinstance(td, TreedefV):
            raise Unsupported('treedef_is_leaf of an unknown treedef')
        return is_single_leaf(td.tree)

    @T.ext('jax.tree.flatten', 'jax.tree_util.tree_flatten')
    def _flatten(interp, tree, is_leaf=None):
        s = ST.leaves_of(interp, tree)
        lst = B.PyList(None, seq=s) if not s.is_concrete_len() else B.PyList(s.py_items())
        return (lst, tree.treedef if isinstance(tree, ST.StructV) else TreedefV(tree))

    @T.ext('jax.tree.unflatten', 'jax.tree_util.tree_unflatten')
    def _unflatten(interp, treedef, leaves):
        s = B.as_seq(interp, leaves)
        if isinstance(treedef, TreedefV):
            if s.is_concrete_len() and concrete(s.length) == 1:
                return s.get(0)
            raise Unsupported('unflatten with the treedef of a single leaf and several leaves')
        return ST.StructV(SSeq(s.length, s.get, 'list'), treedef)

    @T.ext('jax.tree.map', 'jax.tree_util.tree_map')
    def _map(interp, f, tree, *rest, is_leaf=None):
        if isinstance(tree, ST.StructV) and not tree.leaves.is_concrete_len():
            for r in rest:
                if not isinstance(r, ST.StructV):
                    raise Unsupported('tree.map: extra tree is not a tree')
                interp.run.oblige(f'{interp.cur_name()}/pre:tree.map', z_and(z_eq(r.treedef, tree.treedef),
                                  z_eq(r.leaves.length, tree.leaves.length)), kind='pre')
            leaves = SSeq(tree.leaves.length,
                          lambda k: interp.call(f, [tree.leaves.get(k)] + [r.leaves.get(k) for r in rest], {}), 'list')
            return ST.StructV(leaves, tree.treedef)
        if isinstance(tree, (ST.StructV, ST.LeafV)):
            return old_map(interp, f, tree, *rest, is_leaf=is_leaf)
        if is_single_leaf(tree):
            return interp.call(f, [tree] + list(rest), {})

    @T.ext('jax.tree.all', 'jax.tree_util.tree_all')
    def _all(interp, tree):
        if isinstance(tree, ST.StructV):
            return tree.leaves.forall(lambda k, e: interp.truth_term(e))
        return interp.truth_term(tree)

    @T.ext('jax.numpy.einsum')
    def _einsum(interp, subscripts, a, b):
        return EinsumV(subscripts, a, b)

    return T

"""Array dependency contracts in three facets, for code that reshapes / moves axes / broadcasts (furax._base.diagonal).

  * WArr — *wiring* facet, any (symbolic) rank: an array is (shape : sequence of Int of symbolic length, op : the
    call that produced it with its arguments).  Used to prove which primitive is called with which sequence
    arguments for every rank; the numerical meaning of each primitive is the dependency.
  * EArr — *element* facet, concrete rank, symbolic dimension sizes: an array is (shape : list of Int terms, elem :
    index list -> Real term).  Used for the bounded element-level statements.
  * PArr — *point* facet: one generic element (Real / Bool term) of element-wise code.

Assumed contracts (NumPy/JAX semantics, trusted base):
  * a.reshape(s): result has shape s, row-major element order kept.  E facet: only the case the code uses — s is
    a.shape followed by unit dimensions — is modelled (elem'(i_0..i_{n+k-1}) = elem(i_0..i_{n-1})); other targets are
    Unsupported.
  * jnp.moveaxis(a, source, destination): numpy.moveaxis — axes normalised (negative + ndim), `order` = the axes not
    in source, in order, then for (dest, src) sorted by dest: order.insert(dest, src); result = transpose(order):
    result.shape[i] = a.shape[order[i]], result[p] = a[q] with q[order[i]] = p[i].  ValueError (numpy AxisError) for
    out-of-range or repeated axes or unequal lengths.
  * jnp.broadcast_shapes(s1, s2): right-aligned; every aligned pair must be equal or contain a 1, else ValueError;
    result dimension = the one that is not 1 (missing leading dimensions count as 1).
  * a * b: element-wise product under the same broadcasting rule (a dimension of size 1 is read at index 0).
  * jnp.where(c, a, b): element-wise select;  x != 0, 1 / x, x * y: element-wise (division by zero does not raise
    for arrays; its value is unspecified, as SMT's total division).
  * jnp.broadcast_to(a, s), a.ravel(), jnp.concatenate(list, dtype=), jnp.diag(v): wiring tokens (W facet).
"""
from __future__ import annotations

import z3

from pyvc import builtins_model as B
from pyvc.theory import Theory
from pyvc.values import (NOT_IMPLEMENTED, PyFunc, SSeq, Unsupported, Value, concrete, fresh_int, is_intlike, to_real,
                         to_z3, z_and, z_eq, z_ite, z_not, z_or, zbool)


def as_tuple_seq(interp, v) -> SSeq:
    s = B.as_seq(interp, v)
    return SSeq(s.length, s.get, 'tuple')


# ------------------------------------------------------------------------------------------------ wiring facet
class WArr(Value):
    def __init__(self, shape: SSeq, op=None, name=None):
        self.shape = SSeq(shape.length, shape.get, 'tuple')
        if hasattr(shape, 'arr'):
            self.shape.arr = shape.arr
        self.op = op
        self.name = name

    def __repr__(self):
        return f'<warr {self.name or (self.op[0] if self.op else "?")}>'

    @staticmethod
    def opaque(op, base='arr'):
        s = SSeq.fresh(base + '_shape', kind='tuple')
        return WArr(s, op), s

    def py_getattr(self, interp, name):
        if name == 'shape':
            return self.shape
        if name == 'ndim':
            return self.shape.length
        if name == 'reshape':
            def reshape(interp, *a):
                tgt = as_tuple_seq(interp, a[0]) if len(a) == 1 and not is_intlike(a[0]) else SSeq.lift(tuple(a))
                if concrete(tgt.length) == 1 and concrete(tgt.get(0)) == -1:
                    return self.py_getattr(interp, 'ravel').fn(interp)       # x.reshape(-1) is x.ravel()
                return WArr(tgt, ('reshape', self, tgt))
            return PyFunc(reshape, 'Array.reshape')
        if name in ('ravel', 'flatten'):
            def ravel(interp):
                r, s = WArr.opaque(('ravel', self), 'ravel')
                interp.run.assume(to_z3(s.length) == 1)
                return r
            return PyFunc(ravel, 'Array.ravel')
        raise Unsupported(f'array attribute {name}')

    def py_binop(self, interp, op, other, refl):
        if op == 'Mult' and isinstance(other, WArr):
            a, b = (other, self) if refl else (self, other)
            r, s = WArr.opaque(('mul', a, b), 'prod')
            interp.run.assume(to_z3(s.length) >= 0)
            return r
        return NOT_IMPLEMENTED


def broadcast_terms(s1: SSeq, s2: SSeq):
    """(N, a(i), b(i)): rank of the broadcast and the two right-aligned dimension functions (missing dims are 1)"""
    n1, n2 = to_z3(s1.length), to_z3(s2.length)
    N = z3.If(n1 >= n2, n1, n2)

    def a(i):
        j = to_z3(i) - (N - n1)
        return z3.If(j >= 0, to_z3(s1.get(j)), z3.IntVal(1))

    def b(i):
        j = to_z3(i) - (N - n2)
        return z3.If(j >= 0, to_z3(s2.get(j)), z3.IntVal(1))
    return N, a, b


# ------------------------------------------------------------------------------------------------ element facet
class EArr(Value):
    def __init__(self, shape, elem, name=None):
        self.dims = list(shape)
        self.elem = elem
        self.name = name

    def __repr__(self):
        return f'<earr {self.name} rank {len(self.dims)}>'

    @staticmethod
    def fresh(name, rank, S=None):
        dims = [z3.Int(f'{name}_d{i}') for i in range(rank)]
        f = z3.Function(f'{name}_elem', *([z3.IntSort()] * rank), z3.RealSort()) if rank else None
        c = z3.Real(f'{name}_elem') if not rank else None
        arr = EArr(dims, (lambda idx: f(*[to_z3(i) for i in idx])) if rank else (lambda idx: c), name)
        if S is not None:
            S.inputs[name + '_shape'] = dims
            for d in dims:
                S.assume(d >= 1)
        return arr

    def py_getattr(self, interp, name):
        if name == 'shape':
            return tuple(self.dims)
        if name == 'ndim':
            return len(self.dims)
        if name == 'reshape':
            return PyFunc(lambda interp, *a: self._reshape(interp, a), 'Array.reshape')
        raise Unsupported(f'array attribute {name}')

    def _reshape(self, interp, a):
        tgt = a[0] if len(a) == 1 and not is_intlike(a[0]) else tuple(a)
        tgt = list(interp.iter_concrete(tgt))
        n = len(self.dims)
        same = len(tgt) >= n and all(concrete(z_eq(x, y)) is True for x, y in zip(tgt[:n], self.dims))
        if not same or not all(concrete(x) == 1 for x in tgt[n:]):
            raise Unsupported('reshape other than appending unit dimensions (element facet)')
        src = self
        return EArr(tgt, lambda idx: src.elem(list(idx)[:n]), f'reshape({self.name})')

    def py_binop(self, interp, op, other, refl):
        if op == 'Mult' and isinstance(other, EArr):
            a, b = (other, self) if refl else (self, other)
            shape, ok = broadcast_dims(a.dims, b.dims)
            if not interp.run.branch(ok):
                interp.raise_('ValueError', 'operands could not be broadcast together')
            N = len(shape)

            def elem(idx):
                return to_real(a.elem(_bidx(a.dims, idx, N))) * to_real(b.elem(_bidx(b.dims, idx, N)))
            return EArr(shape, elem, f'({a.name}*{b.name})')
        return NOT_IMPLEMENTED


def _bidx(dims, idx, N):
    off = N - len(dims)
    return [z_ite(z_eq(d, 1), 0, idx[off + i]) for i, d in enumerate(dims)]


def broadcast_dims(d1, d2):
    """(broadcast shape, compatibility condition) of two concrete-rank shapes"""
    N = max(len(d1), len(d2))
    p1 = [1] * (N - len(d1)) + list(d1)
    p2 = [1] * (N - len(d2)) + list(d2)
    out, conds = [], []
    for x, y in zip(p1, p2):
        conds.append(z_or(z_eq(x, y), z_eq(x, 1), z_eq(y, 1)))
        out.append(z_ite(z_eq(x, 1), y, x))
    return out, z_and(*conds)


def np_moveaxis_order(ndim, source, destination):
    """numpy.moveaxis's permutation; None when numpy raises (AxisError / ValueError)"""
    def norm(ax):
        out = []
        for a in ax:
            if not -ndim <= a < ndim:
                return None
            out.append(a + ndim if a < 0 else a)
        return out if len(set(out)) == len(out) else None
    s, d = norm(source), norm(destination)
    if s is None or d is None or len(s) != len(d):
        return None
    order = [n for n in range(ndim) if n not in s]
    for dest, src in sorted(zip(d, s)):
        order.insert(dest, src)
    return order


# ------------------------------------------------------------------------------------------------ point facet
class PArr(Value):
    def __init__(self, term):
        self.term = term

    def py_binop(self, interp, op, other, refl):
        o = other.term if isinstance(other, PArr) else other
        if not (isinstance(other, PArr) or isinstance(o, (int, float)) or is_intlike(o) or isinstance(o, z3.ArithRef)):
            return NOT_IMPLEMENTED
        a, b = (o, self.term) if refl else (self.term, o)
        a, b = to_real(a), to_real(b)
        if op == 'Mult':
            return PArr(a * b)
        if op == 'Div':
            return PArr(a / b)              # arrays: no ZeroDivisionError; SMT's total division
        if op == 'Add':
            return PArr(a + b)
        if op == 'Sub':
            return PArr(a - b)
        return NOT_IMPLEMENTED

    def py_eq(self, interp, other):
        o = other.term if isinstance(other, PArr) else other
        return PArr(to_real(self.term) == to_real(o))

    def py_ne(self, interp, other):
        o = other.term if isinstance(other, PArr) else other
        return PArr(to_real(self.term) != to_real(o))

    def truth(self, interp):
        raise Unsupported('truth value of an array')


def install(T: Theory):
    @T.ext('jax.numpy.moveaxis')
    def _moveaxis(interp, a, source, destination):
        if isinstance(a, WArr):
            src, dst = as_tuple_seq(interp, source), as_tuple_seq(interp, destination)
            r, s = WArr.opaque(('moveaxis', a, src, dst), 'moved')
            interp.run.assume(z_eq(s.length, a.shape.length))
            return r
        if isinstance(a, EArr):
            src = [concrete(x) for x in interp.iter_concrete(source)]
            dst = [concrete(x) for x in interp.iter_concrete(destination)]
            if any(x is None for x in src + dst):
                raise Unsupported('moveaxis with symbolic axes (element facet)')
            order = np_moveaxis_order(len(a.dims), src, dst)
            if order is None:
                interp.raise_('ValueError', 'numpy.AxisError')
            n = len(order)

            def elem(idx, a=a, order=order):
                q = [None] * n
                for i in range(n):
                    q[order[i]] = idx[i]
                return a.elem(q)
            r = EArr([a.dims[order[i]] for i in range(n)], elem, f'moveaxis({a.name})')
            r.moved = (a, src, dst)
            return r
        raise Unsupported('moveaxis of a non-array')

    @T.ext('jax.numpy.broadcast_shapes')
    def _broadcast_shapes(interp, s1, s2):
        if isinstance(s1, tuple) and isinstance(s2, tuple):
            shape, ok = broadcast_dims(list(s1), list(s2))
            if not interp.run.branch(ok):
                interp.raise_('ValueError', 'incompatible shapes for broadcasting')
            return tuple(shape)
        q1, q2 = as_tuple_seq(interp, s1), as_tuple_seq(interp, s2)
        N, a, b = broadcast_terms(q1, q2)
        i = fresh_int('i')
        ok = z3.ForAll([i], z3.Implies(z3.And(0 <= i, i < N), z3.Or(a(i) == b(i), a(i) == 1, b(i) == 1)))
        if not interp.run.branch(ok):
            interp.raise_('ValueError', 'incompatible shapes for broadcasting')
        return SSeq(z3.simplify(N), lambda k: z3.If(a(k) == 1, b(k), a(k)), 'tuple')

    @T.ext('jax.numpy.broadcast_to')
    def _broadcast_to(interp, a, shape):
        sh = as_tuple_seq(interp, shape)
        return WArr(sh, ('broadcast_to', a, sh))

    @T.ext('jax.numpy.concatenate')
    def _concatenate(interp, arrays, dtype=None, axis=0):
        r, s = WArr.opaque(('concatenate', B.as_seq(interp, arrays), dtype), 'cat')
        interp.run.assume(to_z3(s.length) == 1)
        return r

    @T.ext('jax.numpy.diag')
    def _diag(interp, v):
        r, s = WArr.opaque(('diag', v), 'diag')
        interp.run.assume(to_z3(s.length) == 2)
        return r

    @T.ext('jax.numpy.isclose')
    def _isclose(interp, a, b, rtol=1e-05, atol=1e-08, **kw):
        """jnp.isclose(a, b): |a - b| <= atol + rtol * |b| element-wise (finite values; floats as reals)"""
        from fractions import Fraction
        if kw:
            raise Unsupported('jnp.isclose with equal_nan')
        if not isinstance(a, PArr) and not isinstance(b, PArr):
            raise Unsupported('jnp.isclose outside the point facet')
        av = to_real(a.term if isinstance(a, PArr) else a)
        bv = to_real(b.term if isinstance(b, PArr) else b)
        tol = z3.RealVal(Fraction(str(atol))) + z3.RealVal(Fraction(str(rtol))) * z3.If(bv >= 0, bv, -bv)
        d = av - bv
        return PArr(z3.And(d <= tol, -d <= tol))

    @T.ext('jax.numpy.where')
    def _where(interp, c, a, b):
        if isinstance(c, PArr):
            av = a.term if isinstance(a, PArr) else a
            bv = b.term if isinstance(b, PArr) else b
            r = PArr(z3.If(zbool(c.term), to_real(av), to_real(bv)))
            r.where = (c, a, b)
            return r
        raise Unsupported('jnp.where outside the point facet')

    return T

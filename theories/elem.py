"""`elem` facet (with the `struct` facts length / dtype carried along): 1-D real arrays as (length, element
function) with symbolic sizes, filtered signals as *tap maps*, and the dependency contracts of the jax / numpy
calls used by furax.operators.toeplitz.

Values
  Arr      1-D array: length (Int term), dtype (term of the enum FDType), and one of
             plain : elem(i) -> Real term
             zero  : every element 0 (polymorphic: also the all-zero tap map)
             filt  : tap map; element t is  SUM_{j in [0, ntaps)} coef(t, j) * src(t, j)   (the sum itself is
                     never built: two filtered signals are equal if their tap maps are equal)
  Matrix   2-D array (nrows, ncols, entry(r, c))
  Batched  N-d array = a batch shape token + the core value (Arr / Matrix) at ONE generic batch index
  Spectrum fft(a[, N]) and products of two of them (only consumed by ifft(...).real)
  AffIdx   integer index vector  base + q*stride, q in [0, count)   (jnp.arange and integer arithmetic on it)

Assumed dependency contracts (trusted base; the `dep:` names actually used are listed in the evidence):
  * jnp.pad(a, (p, q)) / mode='constant': requires p, q >= 0 (obligation `pre`); length p + len + q;
    out[i] = a[i-p] for p <= i < p+len, else 0; dtype kept.
  * jnp.concatenate((a, b)): juxtaposition; dtype = promotion of the parts.
  * a[lo:hi], a[lo:hi:-1] (static bounds): NumPy/Python slice semantics incl. negative bounds and clamping;
    a[i] with a static int: element i, IndexError-free only if in range (obligation `bounds`).
  * jnp.convolve(a, k, mode='valid'): requires len(a) >= len(k) >= 1 (obligation `pre`);
    out[p] = SUM_j k[j] * a[p + len(k) - 1 - j], length len(a) - len(k) + 1; dtype promoted.
  * jnp.fft.fft / jnp.fft.ifft / .real ONLY in the combination ifft(fft(a) * fft(k, N)).real with len(a) = N and
    len(k) <= N (obligation `pre`) = circular convolution  out[t] = SUM_{j < len(k)} k[j] * a[(t - j) mod N]
    (DFT convolution theorem, trusted lemma LA8; taps of the zero padding of k dropped).  For 0 <= t < N and
    0 <= j < len(k) <= N the index (t - j) mod N is  t-j if t >= j else t-j+N.
  * lax.dynamic_slice(a, (s,), (m,)): requires m <= len(a); a negative start is first taken relative to the end
    (s + len(a), once), then the start is CLAMPED into [0, len(a) - m] (checked natively), so "0 <= s and
    s + m <= len(a)" is an obligation (`bounds`), and the model uses the wrapped-and-clamped start.
    lax.dynamic_update_slice(a, u, (s,)): same clamping (obligation `bounds`); TypeError unless a and u have
    the same dtype.
  * lax.fori_loop(lo, hi, body, init): carry = init; for i in range(lo, hi): carry = body(i, carry).  Handled by
    a functional loop invariant F(i) supplied by the pack (obligations inv-init / inv-pres; exit with
    F(max(lo, hi))).
  * jnp.zeros(n[, dtype]): zeros; WITHOUT dtype the default float dtype (float32 when jax_enable_x64 is off,
    float64 when on); a requested dtype is canonicalised (float64 -> float32 when x64 is off).
  * jnp.arange(m): 0..m-1 (empty for m <= 0); integer + and * act element-wise.
  * a.at[idx].set(v): functional update; negative indices wrap once, indices still out of range are dropped.
    (In the row-major (r, c) view the existential "some q has idx[q] = r*w + c" is a Hilbert-choice constant q*
    with the instances q = r, q = c of its defining axiom; a pack may add arithmetic lemmas about q*, each
    proved as its own `lemma` obligation before it is used.)
  * a.reshape(r, c): row-major, requires r*c = len(a) (obligation `pre`);  M @ v: matrix-vector product
    out[i] = SUM_c M[i, c] * v[c], requires ncols = len(v) (obligation `pre`), dtype promoted.
  * jnp.asarray(array): identity.
  * np.log2 / np.ceil / 2 ** e / int(): log2, pow2 uninterpreted with their defining inequalities
    (pow2(log2 x) = x for x > 0, log2 x >= 0 for x >= 1, pow2 monotone, pow2(e) = 2 pow2(e-1), pow2 of a
    non-negative integer is an integer >= 1); ceil(v) = the integer m with m-1 < v <= m (for v = a/b with b > 0
    also (m-1) b < a <= m b); floor(v) = the integer m with m <= v < m+1; floats are exact reals.
  * jnp.vectorize(f, signature=...): f applied independently at every index of the broadcast batch shape,
    core axes last; the output core dimensions must agree with the signature (obligation `pre`).
  * jsl.block_diag(*blocks): block-diagonal matrix of the blocks in the order given.
"""
from __future__ import annotations

import z3

from pyvc import builtins_model as B
from pyvc.theory import Theory
from pyvc.values import (NOT_IMPLEMENTED, FuncRef, PathEnd, PyFunc, SSeq, Unsupported, Value, concrete, fresh_const,
                         fresh_int, is_intlike, is_z3, to_real, to_z3, z_and, zbool)

FD, (F32, F64) = z3.EnumSort('FDType', ['float32', 'float64'])
X64 = z3.Bool('x64')                               # jax_enable_x64, symbolic
BShape = z3.DeclareSort('BShape')                  # batch shapes
b_rank = z3.Function('b_rank', BShape, z3.IntSort())
b_size = z3.Function('b_size', BShape, z3.IntSort())
b_cast = z3.Function('b_cast', BShape, BShape, BShape)       # broadcast of two batch shapes
b_flat = z3.Function('b_flat', BShape, BShape)               # (prod,) : row-major flattening
B_EMPTY = z3.Const('b_empty', BShape)
Log2 = z3.Function('log2', z3.RealSort(), z3.RealSort())
Pow2 = z3.Function('pow2', z3.RealSort(), z3.RealSort())
R0 = z3.RealVal(0)


def bshape_axioms():
    return [b_rank(B_EMPTY) == 0, b_size(B_EMPTY) == 1]


def default_float():
    return z3.If(X64, F64, F32)


def canon(dt):
    """dtype canonicalisation of array constructors"""
    return z3.simplify(z3.If(X64, dt, F32))


def promote(a, b):
    if z3.eq(a, b):
        return a
    return z3.simplify(z3.If(a == b, a, F64))


def zi(v):
    return to_z3(v)


def simp(v):
    return z3.simplify(to_z3(v))


# ---------------------------------------------------------------------------------------------- obligations
def _meta(interp):
    S = getattr(interp.run, '_S', None)
    run = interp.run
    run._tn = getattr(run, '_tn', 0) + 1
    m = {'ordinal': ('dep', run._tn)}
    if S is not None:
        m.update({'inputs': dict(S.inputs), 'func': S.func_name, 'scenario': S.label})
        if S.oracle:
            m['oracle'] = S.oracle
        if getattr(S, 'finding', None):
            m['finding'] = S.finding
    return m


def ob(interp, kind, tag, goal):
    goals = list(goal.children()) if is_z3(goal) and z3.is_and(goal) else [goal]
    for n, g in enumerate(goals):
        sfx = f'.{n + 1}' if len(goals) > 1 else ''
        interp.run.oblige(f'{interp.cur_name()}/{kind}:{tag}{sfx}', g, kind=kind, meta=_meta(interp))


# ---------------------------------------------------------------------------------------------- arrays
class Arr(Value):
    def __init__(self, length, dtype, elem=None, ntaps=None, tap=None, zero=False, elem_rc=None, note=None):
        self.length = length
        self.dtype = dtype
        self._elem, self.ntaps, self._tap, self.zero, self._elem_rc = elem, ntaps, tap, zero, elem_rc
        self.note = note            # provenance marker used by wiring obligations

    def __repr__(self):
        return f'<arr len={self.length} {self.kind}>'

    @property
    def kind(self):
        return 'zero' if self.zero else ('filt' if self._tap is not None else 'plain')

    def elem(self, i):
        if self.zero:
            return R0
        if self._elem is None:
            raise Unsupported('element of a filtered signal / closed-form array used as a plain number')
        return self._elem(i)

    def elem_rc(self, r, c, w):
        """element at flat index r*w + c (row-major view of width w)"""
        if self.zero:
            return R0
        if self._elem_rc is not None:
            return self._elem_rc(r, c, w)
        return self.elem(zi(r) * zi(w) + zi(c))

    def tap(self, t, j):
        if self.zero:
            return R0, R0
        if self._tap is None:
            raise Unsupported('plain array used as a filtered signal')
        return self._tap(t, j)

    def reindex(self, length, f):
        """array whose element k is self[f(k)]"""
        if self.zero:
            return Arr(length, self.dtype, zero=True)
        if self._tap is not None:
            return Arr(length, self.dtype, ntaps=self.ntaps, tap=lambda t, j: self._tap(f(t), j))
        return Arr(length, self.dtype, elem=lambda k: self.elem(f(k)))

    # ---- python protocol
    def py_getattr(self, interp, name):
        if name == 'size':
            return self.length
        if name == 'shape':
            return (self.length,)
        if name == 'ndim':
            return 1
        if name == 'dtype':
            return self.dtype
        if name == 'at':
            return AtHelper(self)
        if name == 'reshape':
            return PyFunc(lambda interp, *a: arr_reshape(interp, self, a), 'Array.reshape')
        raise Unsupported(f'array attribute {name}')

    def py_len(self, interp):
        return self.length

    def py_getitem(self, interp, idx):
        if isinstance(idx, slice):
            if getattr(interp.theory, 'strict_slices', False) and concrete(idx.step) in (None, 1):
                # opt-in (pack): the code under contract never relies on slice clamping, so in-range is an obligation
                n = zi(self.length)
                nrm = lambda v, d: d if v is None else z3.If(zi(v) < 0, zi(v) + n, zi(v))
                lo, hi = nrm(idx.start, z3.IntVal(0)), nrm(idx.stop, n)
                ob(interp, 'bounds', 'static-slice-within-array', simp(z3.And(0 <= lo, lo <= hi, hi <= n)))
            I = SSeq(self.length, lambda k: k, 'tuple')
            J = B.getitem(interp, I, idx)
            return self.reindex(J.length, J.get)
        if is_intlike(idx):
            n = zi(self.length)
            i = zi(idx)
            j = z3.If(i < 0, i + n, i)
            ob(interp, 'bounds', 'static-index-in-range', z3.And(j >= 0, j < n))
            return self.elem(simp(j))
        raise Unsupported(f'array index {idx!r}')


def arr_reshape(interp, a: Arr, args):
    if len(args) == 1 and isinstance(args[0], tuple):
        args = args[0]
    if len(args) != 2:
        raise Unsupported('reshape of a 1-D array to other than 2 dimensions')
    r, c = args
    ob(interp, 'pre', 'reshape-size', z3.And(zi(r) >= 0, zi(c) >= 0, zi(r) * zi(c) == zi(a.length)))
    return Matrix(r, c, lambda i, k: a.elem_rc(i, k, c), a.dtype)


class Matrix(Value):
    def __init__(self, nrows, ncols, entry, dtype, note=None):
        self.nrows, self.ncols, self.entry, self.dtype, self.note = nrows, ncols, entry, dtype, note

    def py_getattr(self, interp, name):
        if name == 'shape':
            return (self.nrows, self.ncols)
        if name == 'ndim':
            return 2
        if name == 'dtype':
            return self.dtype
        if name == 'size':
            return zi(self.nrows) * zi(self.ncols)
        raise Unsupported(f'matrix attribute {name}')

    def py_binop(self, interp, op, other, refl):
        if op == 'MatMult' and not refl and isinstance(other, Arr):
            ob(interp, 'pre', 'matmul-shapes', zi(self.ncols) == zi(other.length))
            return Arr(self.nrows, promote(self.dtype, other.dtype), ntaps=other.length,
                       tap=lambda t, j: (self.entry(t, j), other.elem(j)))
        return NOT_IMPLEMENTED


# ---------------------------------------------------------------------------------------------- index vectors
class AffIdx(Value):
    """integer vector  base + q*stride  for q in [0, count)"""

    def __init__(self, base, stride, count):
        self.base, self.stride, self.count = simp(base), simp(stride), simp(count)

    def at(self, q):
        return simp(zi(self.base) + zi(q) * zi(self.stride))

    def py_binop(self, interp, op, other, refl):
        if not is_intlike(other):
            return NOT_IMPLEMENTED
        if op == 'Add':
            return AffIdx(zi(self.base) + zi(other), self.stride, self.count)
        if op == 'Sub' and not refl:
            return AffIdx(zi(self.base) - zi(other), self.stride, self.count)
        if op == 'Mult':
            return AffIdx(zi(self.base) * zi(other), zi(self.stride) * zi(other), self.count)
        return NOT_IMPLEMENTED


class AtHelper(Value):
    def __init__(self, arr):
        self.arr = arr

    def py_getitem(self, interp, idx):
        return AtIdx(self.arr, idx)


class AtIdx(Value):
    def __init__(self, arr, idx):
        self.arr, self.idx = arr, idx

    def py_getattr(self, interp, name):
        if name != 'set':
            raise Unsupported(f'.at[].{name}')
        return PyFunc(self._set, 'Array.at[].set')

    def _set(self, interp, value, **kw):
        a, idx = self.arr, self.idx
        if kw:
            raise Unsupported('.at[].set with mode/hints')
        if not isinstance(idx, AffIdx):
            raise Unsupported('.at[] with a non-affine index vector')
        if isinstance(value, (Arr, Matrix)):
            raise Unsupported('.at[].set of a non-scalar')
        v = to_real(value)
        n = zi(a.length)

        from pyvc.values import known
        nonneg = known(z3.And(zi(idx.base) >= 0, zi(idx.stride) >= 0)) is True     # then idx(q) >= 0 for q >= 0

        def pred(q, f):
            raw = idx.at(q)
            # negative indices wrap once; what is still out of range is dropped (only in-range f are asked about)
            norm = raw if nonneg else z3.If(raw < 0, raw + n, raw)
            return z3.And(zi(q) >= 0, zi(q) < zi(idx.count), norm == f)

        def member(f):
            q = fresh_int('q')
            return z3.Exists([q], pred(q, f))

        def member_rc(r, c, w):
            """`some q has idx(q) = r*w + c`, quantifier-free: q* is a fresh constant standing for a witness if there
            is one (Hilbert choice), so the statement is pred(q*); of the defining axiom  forall q. pred(q) -> pred(q*)
            only the instances q = r and q = c are added (fewer hypotheses: proofs stay valid)."""
            f = zi(r) * zi(w) + zi(c)
            qs = fresh_int('qstar')
            for cand in (zi(r), zi(c)):
                interp.run.assume(z3.Implies(pred(cand, f), pred(qs, f)))
            hint = getattr(interp.theory, 'at_set_hint', None)
            if hint is not None:
                # cut: pack-supplied arithmetic lemmas about the witness, proved on their own (`lemma`) then used
                for tag, lem in hint(r, c, w, qs, pred(qs, f)):
                    ob(interp, 'lemma', tag, lem)
                    interp.run.assume(lem)
            return pred(qs, f)

        return Arr(a.length, a.dtype,
                   elem=lambda f: z3.If(member(zi(f)), v, a.elem(f)),
                   elem_rc=lambda r, c, w: z3.If(member_rc(r, c, w), v, a.elem_rc(r, c, w)))


# ---------------------------------------------------------------------------------------------- spectra
class Spectrum(Value):
    def __init__(self, arr: Arr, N, explicit):
        self.arr, self.N, self.explicit = arr, N, explicit

    def py_binop(self, interp, op, other, refl):
        if op == 'Mult' and isinstance(other, Spectrum):
            ob(interp, 'pre', 'spectra-same-length', zi(self.N) == zi(other.N))
            return SpecProd(other, self) if refl else SpecProd(self, other)
        return NOT_IMPLEMENTED


class SpecProd(Value):
    def __init__(self, a: Spectrum, b: Spectrum):
        self.a, self.b = a, b


class Ifft(Value):
    def __init__(self, p: SpecProd):
        self.p = p

    def py_getattr(self, interp, name):
        if name != 'real':
            raise Unsupported(f'ifft(...).{name}')
        a, b = self.p.a, self.p.b
        if a.explicit == b.explicit:
            raise Unsupported('ifft(fft*fft): exactly one factor must be fft(kernel, N)')
        sig, ker = (a, b) if b.explicit else (b, a)
        N = sig.N
        k, s = ker.arr, sig.arr
        # fft(k, N) would truncate k if N < len(k): the contract is stated for the non-truncating case only
        ob(interp, 'pre', 'fft-size-covers-kernel', zi(k.length) <= zi(N))

        def tap(t, j):
            d = zi(t) - zi(j)
            return k.elem(j), s.elem(z3.If(d >= 0, d, d + zi(N)))
        return Arr(N, promote(k.dtype, s.dtype), ntaps=k.length, tap=tap)


# ---------------------------------------------------------------------------------------------- batches
class ShapeV(Value):
    """shape of an N-d array: batch shape token + concrete tuple of core dims"""

    def __init__(self, bshape, core):
        self.bshape, self.core = bshape, tuple(core)

    def py_getitem(self, interp, idx):
        c = concrete(idx)
        if c is not None and c < 0 and -c <= len(self.core):
            return self.core[c]
        raise Unsupported('shape index into the batch part')


class Batched(Value):
    """N-d array: batch shape + core value at the generic batch index `bidx`"""

    def __init__(self, bshape, core, bidx, flat=False):
        self.bshape, self.core, self.bidx, self.flat = bshape, core, bidx, flat

    @property
    def core_ndim(self):
        return 2 if isinstance(self.core, Matrix) else 1

    def py_getattr(self, interp, name):
        if name == 'ndim':
            return simp(b_rank(self.bshape) + self.core_ndim)
        if name == 'dtype':
            return self.core.dtype
        if name == 'size':
            cs = self.core.length if isinstance(self.core, Arr) else zi(self.core.nrows) * zi(self.core.ncols)
            return b_size(self.bshape) * zi(cs)
        if name == 'shape':
            core = (self.core.length,) if isinstance(self.core, Arr) else (self.core.nrows, self.core.ncols)
            return ShapeV(self.bshape, core)
        if name == 'reshape':
            return PyFunc(self._reshape, 'Array.reshape')
        raise Unsupported(f'batched array attribute {name}')

    def _reshape(self, interp, *args):
        if not (len(args) == 3 and concrete(args[0]) == -1 and isinstance(self.core, Matrix)):
            raise Unsupported('reshape of a batched array other than (-1, r, c)')
        ob(interp, 'pre', 'reshape-keeps-core', z3.And(zi(args[1]) == zi(self.core.nrows),
                                                       zi(args[2]) == zi(self.core.ncols)))
        return Batched(b_flat(self.bshape), self.core, self.bidx, flat=True)

    def py_iter(self, interp, expect=None):
        """`*blocks`: the family of blocks along the (single) leading axis, given by its generic member"""
        if not self.flat:
            raise Unsupported('iteration over an array with several batch axes')
        return [BlockFamily(self)]


class BlockFamily(Value):
    def __init__(self, batched: Batched):
        self.batched = batched


class BlockDiag(Value):
    """block_diag(*family): blocks in the order of the family (row-major order of the original batch axes)"""

    def __init__(self, family: BlockFamily):
        self.family = family


# ---------------------------------------------------------------------------------------------- comparisons
def arr_eq_goals(a: Arr, b: Arr, rc=None):
    """pointwise equality of two arrays at fresh (Skolem) positions; list of (tag, goal).
    rc=(rows, width): compare in the row-major (r, c) coordinates of a rows x width view (length = rows*width)"""
    out = [('length', simp(zi(a.length) == zi(b.length))), ('dtype', simp(a.dtype == b.dtype))]
    n = zi(a.length)
    if rc is not None:
        r, c = fresh_int('r'), fresh_int('c')
        rows, w = zi(rc[0]), zi(rc[1])
        out.append(('view', simp(n == rows * w)))
        out.append(('elements', z3.Implies(z3.And(0 <= r, r < rows, 0 <= c, c < w),
                                           a.elem_rc(r, c, w) == b.elem_rc(r, c, w))))
        return out
    t = fresh_int('t')
    if a.kind == 'plain' and b.kind in ('plain', 'zero') or a.kind == 'zero' and b.kind == 'plain':
        out.append(('elements', z3.Implies(z3.And(0 <= t, t < n), a.elem(t) == b.elem(t))))
        return out
    if a.kind == 'zero' and b.kind == 'zero':
        return out
    j = fresh_int('j')
    nt = a.ntaps if a.kind == 'filt' else b.ntaps
    if a.kind == 'filt' and b.kind == 'filt':
        out.append(('ntaps', zi(a.ntaps) == zi(b.ntaps)))
    ca, sa = a.tap(t, j)
    cb, sb = b.tap(t, j)
    rng = z3.And(0 <= t, t < n, 0 <= j, j < zi(nt))
    out.append(('tap-coefficient', z3.Implies(rng, ca == cb)))
    out.append(('tap-source', z3.Implies(rng, sa == sb)))
    return out


# ---------------------------------------------------------------------------------------------- theory
def install(T: Theory):
    T.fori_invariants = {}      # qualname of the body function -> F(interp, k, init) -> Arr   (functional invariant)

    @T.ext('jax.numpy.asarray')
    def _asarray(interp, a, **kw):
        if kw or not isinstance(a, (Arr, Batched, Matrix)):
            raise Unsupported('asarray of a non-array / with dtype')
        return a

    @T.ext('jax.numpy.zeros')
    def _zeros(interp, shape, dtype=None):
        dt = default_float() if dtype is None else canon(dtype)
        if isinstance(shape, ShapeV):
            if len(shape.core) != 1:
                raise Unsupported('zeros of this shape')
            return Batched(shape.bshape, Arr(shape.core[0], dt, zero=True), None)
        if isinstance(shape, tuple) and len(shape) == 1:
            shape = shape[0]
        if not is_intlike(shape):
            raise Unsupported('zeros of a non-1-D shape')
        ob(interp, 'pre', 'zeros-length-non-negative', zi(shape) >= 0)
        return Arr(shape, dt, zero=True)

    @T.ext('jax.numpy.arange')
    def _arange(interp, m):
        if not is_intlike(m):
            raise Unsupported('arange of a non-integer')
        return AffIdx(0, 1, simp(z3.If(zi(m) < 0, 0, zi(m))))

    @T.ext('jax.numpy.pad')
    def _pad(interp, a, pads, mode='constant'):
        if mode != 'constant' or not isinstance(a, Arr):
            raise Unsupported('pad: only constant mode of 1-D arrays')
        if is_intlike(pads):
            pads = (pads, pads)
        pads = tuple(pads)
        if len(pads) == 1:
            pads = (pads[0], pads[0])
        p, q = (zi(v) for v in pads)
        ob(interp, 'pre', 'pad-widths-non-negative', z3.And(p >= 0, q >= 0))
        n = zi(a.length)
        ln = simp(p + n + q)
        inside = lambda i: z3.And(zi(i) >= p, zi(i) < p + n)
        if a.kind == 'zero':
            return Arr(ln, a.dtype, zero=True)
        if a.kind == 'filt':
            def tap(t, j):
                c, s = a.tap(zi(t) - p, j)
                return z3.If(inside(t), c, R0), z3.If(inside(t), s, R0)
            return Arr(ln, a.dtype, ntaps=a.ntaps, tap=tap)
        return Arr(ln, a.dtype, elem=lambda i: z3.If(inside(i), a.elem(simp(zi(i) - p)), R0))

    @T.ext('jax.numpy.flip', 'numpy.flip')
    def _flip(interp, a, axis=None):
        """jnp.flip of a 1-D array: element k is a[n - 1 - k] (same as a[::-1])"""
        if not isinstance(a, Arr) or concrete(axis) not in (None, 0, -1):
            raise Unsupported('flip: a 1-D array along its only axis')
        n = zi(a.length)
        return a.reindex(a.length, lambda k: simp(n - 1 - zi(k)))

    @T.ext('jax.numpy.matmul', 'jax.numpy.dot')
    def _matmul(interp, m, x):
        """jnp.matmul(M, x) / jnp.dot(M, x) for a matrix and a vector: M @ x"""
        r = m.py_binop(interp, 'MatMult', x, False) if isinstance(m, Matrix) else NOT_IMPLEMENTED
        if r is NOT_IMPLEMENTED:
            raise Unsupported('matmul outside the modelled form matrix @ vector')
        return r

    @T.ext('jax.numpy.concatenate')
    def _concat(interp, parts, axis=0):
        parts = list(parts)
        if len(parts) != 2 or not all(isinstance(p, Arr) and p.kind == 'plain' for p in parts) or concrete(axis) != 0:
            raise Unsupported('concatenate: two plain 1-D arrays')
        a, b = parts
        na = zi(a.length)
        return Arr(simp(na + zi(b.length)), promote(a.dtype, b.dtype),
                   elem=lambda i: z3.If(zi(i) < na, a.elem(i), b.elem(simp(zi(i) - na))))

    @T.ext('jax.numpy.convolve')
    def _convolve(interp, a, k, mode='full'):
        if mode != 'valid' or not (isinstance(a, Arr) and isinstance(k, Arr)):
            raise Unsupported('convolve: only mode="valid" on 1-D arrays')
        na, nk = zi(a.length), zi(k.length)
        ob(interp, 'pre', 'convolve-valid-lengths', z3.And(nk >= 1, na >= nk))
        return Arr(simp(na - nk + 1), promote(a.dtype, k.dtype), ntaps=k.length,
                   tap=lambda p, j: (k.elem(j), a.elem(simp(zi(p) + nk - 1 - zi(j)))))

    @T.ext('jax.numpy.fft.fft')
    def _fft(interp, a, n=None):
        if not isinstance(a, Arr) or a.kind == 'filt':
            raise Unsupported('fft of a non-plain array')
        return Spectrum(a, a.length if n is None else n, n is not None)

    @T.ext('jax.numpy.fft.ifft')
    def _ifft(interp, p):
        if not isinstance(p, SpecProd):
            raise Unsupported('ifft of something other than fft(a) * fft(k, N)')
        return Ifft(p)

    def _clamped_start(interp, tag, start, m, n):
        s, m, n = zi(start), zi(m), zi(n)
        ob(interp, 'bounds', tag, z3.And(m <= n, s >= 0, s + m <= n))
        w = z3.If(s < 0, s + n, s)                 # a negative start is taken relative to the end, once
        return z3.If(w < 0, 0, z3.If(w > n - m, n - m, w))

    def _one(t):
        t = tuple(t) if isinstance(t, (tuple, list)) else None
        if t is None or len(t) != 1:
            raise Unsupported('dynamic slice of a non-1-D array')
        return t[0]

    @T.ext('jax.lax.dynamic_slice')
    def _dslice(interp, a, starts, sizes):
        if not isinstance(a, Arr):
            raise Unsupported('dynamic_slice of a non-1-D array')
        s0, m = _one(starts), _one(sizes)
        s = _clamped_start(interp, 'dynamic_slice-start-not-clamped', s0, m, a.length)
        return a.reindex(m, lambda k: simp(zi(k) + s))

    @T.ext('jax.lax.dynamic_update_slice')
    def _dupdate(interp, a, u, starts):
        if not (isinstance(a, Arr) and isinstance(u, Arr)):
            raise Unsupported('dynamic_update_slice of non-1-D arrays')
        if not interp.run.branch(a.dtype == u.dtype):
            interp.raise_('TypeError', 'dynamic_update_slice: dtypes differ')
        s0 = _one(starts)
        m = zi(u.length)
        s = _clamped_start(interp, 'dynamic_update_slice-start-not-clamped', s0, m, a.length)
        inside = lambda t: z3.And(zi(t) >= s, zi(t) < s + m)
        if a.kind == 'plain' and u.kind in ('plain', 'zero') or (a.kind == 'zero' and u.kind == 'plain'):
            return Arr(a.length, a.dtype, elem=lambda t: z3.If(inside(t), u.elem(simp(zi(t) - s)), a.elem(t)))
        if a.kind == 'zero' and u.kind == 'zero':
            return a
        nt = u.ntaps if u.kind == 'filt' else a.ntaps
        if a.kind == 'filt' and u.kind == 'filt' and not z3.eq(simp(a.ntaps), simp(u.ntaps)):
            ob(interp, 'pre', 'update-same-number-of-taps', zi(a.ntaps) == zi(u.ntaps))

        def tap(t, j):
            ca, sa = a.tap(t, j)
            cu, su = u.tap(simp(zi(t) - s), j)
            return z3.If(inside(t), cu, ca), z3.If(inside(t), su, sa)
        return Arr(a.length, a.dtype, ntaps=nt, tap=tap)

    @T.ext('jax.lax.fori_loop')
    def _fori(interp, lo, hi, body, init):
        name = body.info.qualname if isinstance(body, FuncRef) else None
        F = T.fori_invariants.get(name)
        if F is None:
            raise Unsupported(f'fori_loop without a loop invariant for body {name!r}')
        if not isinstance(init, Arr):
            raise Unsupported('fori_loop carry is not a 1-D array')
        lo_, hi_ = zi(lo), zi(hi)
        for tag, g in arr_eq_goals(init, F(interp, lo_, init)):
            ob(interp, 'inv-init', f'fori_loop-{tag}', g)
        which = interp.run.decide(2)
        if which == 0:
            k = fresh_int('iter')
            interp.run.assume(z3.And(k >= lo_, k < hi_))
            res = interp.call(body, [k, F(interp, k, init)], {})
            if not isinstance(res, Arr):
                raise Unsupported('fori_loop body does not return a 1-D array')
            for tag, g in arr_eq_goals(res, F(interp, k + 1, init)):
                ob(interp, 'inv-pres', f'fori_loop-{tag}', g)
            raise PathEnd('end of fori_loop body iteration')
        return F(interp, simp(z3.If(hi_ >= lo_, hi_, lo_)), init)

    # ---- numpy scalar functions for _get_default_fft_size / nblock
    @T.ext('numpy.log2')
    def _log2(interp, v):
        x = to_real(v)
        ob(interp, 'pre', 'log2-of-positive', x > 0)
        interp.run.assume(z3.And(z3.Implies(x > 0, Pow2(Log2(x)) == x), z3.Implies(x >= 1, Log2(x) >= 0)))
        return Log2(x)

    T.ceils = []

    @T.ext('numpy.ceil')
    def _ceil(interp, v):
        c = concrete(v)
        if c is not None:
            import math
            return math.ceil(c)
        x = to_real(v)
        m = fresh_int('ceil')
        interp.run.assume(z3.And(z3.ToReal(m) - 1 < x, x <= z3.ToReal(m)))
        if z3.is_div(x):
            num, den = x.children()
            if z3.is_to_real(num) and z3.is_to_real(den):
                a, b = num.arg(0), den.arg(0)
                interp.run.assume(z3.Implies(b > 0, z3.And((m - 1) * b < a, a <= m * b)))
        # pow2 is monotone: instance for (v, ceil v)
        interp.run.assume(z3.Implies(x <= z3.ToReal(m), Pow2(x) <= Pow2(z3.ToReal(m))))
        return z3.ToReal(m)

    @T.ext('numpy.floor')
    def _floor(interp, v):
        c = concrete(v)
        if c is not None:
            import math
            return math.floor(c)
        x = to_real(v)
        m = fresh_int('floor')
        interp.run.assume(z3.And(z3.ToReal(m) <= x, x < z3.ToReal(m) + 1))
        interp.run.assume(z3.Implies(z3.ToReal(m) <= x, Pow2(z3.ToReal(m)) <= Pow2(x)))
        return z3.ToReal(m)

    def power(interp, a, b):
        if concrete(a) != 2:
            return None
        e = z3.simplify(to_real(b))
        p = fresh_int('pow2')
        interp.run.assume(z3.And(Pow2(e) == 2 * Pow2(z3.simplify(e - 1)),
                                 z3.Implies(z3.And(z3.IsInt(e), e >= 0), z3.And(Pow2(e) == z3.ToReal(p), p >= 1))))
        return Pow2(e)
    T.power = power

    # ---- batches
    @T.ext('jax.numpy.vectorize')
    def _vectorize(interp, f, signature=None, **kw):
        if kw or not isinstance(signature, str):
            raise Unsupported('vectorize without a literal signature')
        ins, outs = signature.replace(' ', '').split('->')
        in_dims = [tuple(x for x in p.strip('()').split(',') if x) for p in ins.split('),(')]
        out_dims = tuple(x for x in outs.strip('()').split(',') if x)
        if any(len(d) != 1 for d in in_dims) or len(out_dims) not in (1, 2):
            raise Unsupported(f'vectorize signature {signature}')

        def vf(interp, *args):
            if len(args) != len(in_dims):
                interp.raise_('TypeError', 'vectorize: wrong number of arguments')
            cores, bshape, bidx = [], None, None
            for a in args:
                if isinstance(a, Batched):
                    if not isinstance(a.core, Arr):
                        raise Unsupported('vectorize over non-vector cores')
                    cores.append(a.core)
                    bshape = a.bshape if bshape is None else b_cast(bshape, a.bshape)
                    if a.bidx is not None:
                        if bidx is not None and not z3.eq(bidx, a.bidx):
                            raise Unsupported('vectorize: arguments given at different generic batch indices')
                        bidx = a.bidx
                elif isinstance(a, Arr):
                    cores.append(a)
                    bshape = B_EMPTY if bshape is None else b_cast(bshape, B_EMPTY)
                else:
                    raise Unsupported(f'vectorize argument {a!r}')
            env = {}
            for dims, cv in zip(in_dims, cores):
                env.setdefault(dims[0], cv.length)       # same letter twice: lengths must agree
                if env[dims[0]] is not cv.length:
                    ob(interp, 'pre', 'vectorize-core-dims-agree', zi(env[dims[0]]) == zi(cv.length))
            res = interp.call(f, cores, {})
            if len(out_dims) == 1:
                if not isinstance(res, Arr):
                    raise Unsupported('vectorize: result core is not 1-D')
                if out_dims[0] in env:
                    ob(interp, 'pre', 'vectorize-output-core-dim', zi(res.length) == zi(env[out_dims[0]]))
            else:
                if not isinstance(res, Matrix):
                    raise Unsupported('vectorize: result core is not 2-D')
                for d, got in zip(out_dims, (res.nrows, res.ncols)):
                    if d in env:
                        ob(interp, 'pre', 'vectorize-output-core-dim', zi(got) == zi(env[d]))
            return Batched(bshape, res, bidx)
        return PyFunc(vf, f'vectorize[{signature}]')

    @T.ext('jax.scipy.linalg.block_diag')
    def _block_diag(interp, *blocks):
        if len(blocks) != 1 or not isinstance(blocks[0], BlockFamily):
            raise Unsupported('block_diag of something other than *family')
        return BlockDiag(blocks[0])

    return T

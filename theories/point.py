"""`point` facet: a jax/numpy array is ONE generic element, a z3 Real term (valid for element-wise code under
broadcasting); shape / dtype / axis names ride along as opaque tokens.  Stokes containers are instances of the
real classes of furax.landscapes (dataclass-like auto __init__ over the annotated fields).

Assumed dependency contracts (trusted base; each is listed in the evidence under `dep:<path>` when used):
  * array `+ - * / ** neg abs`: element-wise on the generic element; `**` with a literal exponent 0..4 is the
    repeated product, otherwise the uninterpreted `pow(a, b)`; `/` is real division (no exception for arrays);
    right-aligned broadcasting: when both operands carry axis names the shorter list must be a suffix of the longer
    (otherwise the path is unsupported -> UNDECIDED);
  * jnp.cos / jnp.sin: uninterpreted real functions `cos`, `sin`; the angle terms they are applied to are recorded
    so that the pack can add ground instances of LA7 (angle addition / subtraction, cos^2 + sin^2 = 1, parity);
    jnp.sqrt / arccos / arctan2 / round: uninterpreted element-wise functions;
  * jnp.vdot(x, y): uninterpreted NON-symmetric `vdot(x, y)` (conjugation of the first argument is what makes the
    argument order observable);  x[idx]: uninterpreted `getitem(x, idx)`;
  * jnp.isscalar(v): True for Python numbers, `ndim == 0` (a free Boolean) for arrays, False for anything else;
  * jnp.array(v): a Python number becomes a 0-d array; a nested list of arrays becomes the nested tuple of its
    entries (leading, concrete axes);  jnp.full(shape, v, dtype): every element is v;
    jnp.astype(x, dt): same elements, dtype dt;  jnp.result_type(*xs): uninterpreted token of the dtypes of xs;
  * jax.ShapeDtypeStruct(shape, dtype): records shape and dtype as given; `==` compares both;
  * jax.tree.map / leaves / flatten / unflatten / structure: pytree semantics with tuple / list / dict (keys sorted)
    / None / jdc.pytree_dataclass instances (fields in declaration order) as nodes, everything else a leaf; extra
    trees of tree.map need the first as prefix (else ValueError); treedef_is_leaf(td): td has exactly one node
    (checked natively: True for a leaf but also for None and for empty containers);
  * jdc.pytree_dataclass: frozen dataclass: auto __init__ over the annotated non-ClassVar fields, field-wise `==`;
  * jax.eval_shape(f, *s): structure of f applied to arrays of structure s; HASHES f: for a bound method of an
    equinox Module every declared field is read (AttributeError if one is not assigned yet);
  * jax.random.split(key, n): n keys `split(key, n)[i]`; jax.random.normal / uniform(key, shape, dtype, ...):
    array of the requested shape and dtype drawn from `key` (distribution not modelled);
  * jnp.einsum(subs, A, B): out[S] = sum over the labels absent from S of A[L] * B[R]; leading labels of an operand
    address the (concrete) nesting levels of a nested tuple, the remaining ones the axis names of its generic
    element; summation over a generic (non-concrete) axis is unsupported;
  * jax.jit: identity;  jax.vmap(f) on element-wise f: f on the generic element (all arguments mapped on axis 0);
  * jax.device_put: identity;  np.broadcast(*xs).shape / .size, np.prod, np.sqrt, np.empty + item assignment;
  * lineax tag registration (`lx.is_*.register(cls)(f)`) has no effect on values;
  * jax_healpy.ang2pix(nside, theta, phi): uninterpreted integer-valued `ang2pix` (C16/C17 out-of-reach clause).
"""
from __future__ import annotations

import itertools
from fractions import Fraction

import z3

from pyvc import builtins_model as B
from pyvc.interp import Frame
from pyvc.source import FuncInfo
from pyvc.theory import Theory
from pyvc.values import (NOT_IMPLEMENTED, BoundMethod, ClassRef, Ext, FuncRef, Obj, Partial, PyFunc, SSeq,
                         Unsupported, Value, concrete, fresh_bool, fresh_name, is_numlike, is_z3, to_real, to_z3,
                         z_and, z_eq, z_not, z_or)

R = z3.RealSort()
f_cos = z3.Function('cos', R, R)
f_sin = z3.Function('sin', R, R)
f_sqrt = z3.Function('sqrt', R, R)
f_arccos = z3.Function('arccos', R, R)
f_arctan2 = z3.Function('arctan2', R, R, R)
f_round = z3.Function('round', R, R)
f_pow = z3.Function('pow', R, R, R)
f_vdot = z3.Function('vdot', R, R, R)
f_dot = z3.Function('dot', R, R, R)                  # jnp.dot of two (flattened) arrays: no conjugation
f_conj = z3.Function('conj', R, R)
f_iscomplex = z3.Function('iscomplex', R, z3.BoolSort())
f_getitem = z3.Function('getitem', R, R, R)
f_ang2pix = z3.Function('ang2pix', R, R, R, R)
f_pix2idx = z3.Function('pixel2index', R, R)
f_normal = z3.Function('random_normal', R, R)
f_uniform = z3.Function('random_uniform', R, R, R, R)
f_split = z3.Function('random_split', R, z3.IntSort(), z3.IntSort(), R)
DT = z3.DeclareSort('PDType')
f_result_type = {}      # arity -> uninterpreted function


# ---------------------------------------------------------------------------------------------- values
def term_of(v):
    """the generic element of an array-like value as a Real term"""
    if isinstance(v, ArrV):
        return v.term
    if isinstance(v, bool):
        return z3.RealVal(int(v))
    if isinstance(v, (int, Fraction, float)):
        return z3.RealVal(Fraction(v))
    if isinstance(v, z3.ArithRef):
        return to_real(v)
    raise Unsupported(f'not an array-like value in the point facet: {v!r}')


def is_pyscalar(v):
    return (isinstance(v, (int, float, Fraction)) or isinstance(v, z3.ArithRef)) and not isinstance(v, ArrV)


def same_token(a, b):
    """are two opaque shape / dtype / axes tokens certainly the same?"""
    if a is b:
        return True
    try:
        r = z_eq(a, b)
    except Unsupported:
        return False
    return r is True or (is_z3(r) and z3.is_true(z3.simplify(r)))


def merge_shape(a, b):
    if a is None:
        return b
    if b is None or same_token(a, b):
        return a
    # scalar () broadcasts to anything
    if isinstance(a, tuple) and len(a) == 0:
        return b
    if isinstance(b, tuple) and len(b) == 0:
        return a
    if isinstance(a, tuple) and isinstance(b, tuple) and len(a) != len(b):
        lo, hi = (a, b) if len(a) < len(b) else (b, a)
        if len(lo) == 0 or same_token(tuple(hi[-len(lo):]), tuple(lo)):
            return hi
    return ('broadcast', a, b)


def merge_axes(a, b):
    if a is None:
        return b
    if b is None:
        return a
    lo, hi = (a, b) if len(a) <= len(b) else (b, a)
    if len(lo) == 0 or tuple(hi[-len(lo):]) == tuple(lo):
        return hi
    raise Unsupported(f'element-wise operation on arrays whose axes {a} / {b} do not align under broadcasting')


class ArrV(Value):
    """a jax / numpy array seen through its generic element"""

    def __init__(self, term, shape=None, dtype=None, axes=None, info=None):
        self.term = term_of(term) if not (isinstance(term, z3.ArithRef) and term.is_real()) else term
        self.shape = shape
        self.dtype = dtype
        self.axes = axes          # names of the axes the generic element ranges over (None: unknown / irrelevant)
        self.info = info or {}

    def __repr__(self):
        return f'<arr {self.term}>'

    def like(self, term, **kw):
        d = dict(shape=self.shape, dtype=self.dtype, axes=self.axes)
        d.update(kw)
        return ArrV(term, **d)

    def sym_eq(self, other):
        if not isinstance(other, ArrV):
            return False
        return self.term == other.term

    # ---- arithmetic
    def py_binop(self, interp, op, other, refl):
        if not (isinstance(other, ArrV) or is_pyscalar(other) or isinstance(other, bool)):
            return NOT_IMPLEMENTED
        a, b = (other, self) if refl else (self, other)
        ta, tb = term_of(a), term_of(b)
        if op == 'Add':
            t = ta + tb
        elif op == 'Sub':
            t = ta - tb
        elif op == 'Mult':
            t = ta * tb
        elif op == 'Div':
            t = ta / tb
        elif op == 'Pow':
            cb = concrete(b) if not isinstance(b, ArrV) else None
            if cb is not None and isinstance(cb, int) and not isinstance(cb, bool) and 0 <= cb <= 4:
                t = z3.RealVal(1)
                for _ in range(cb):
                    t = t * ta
            else:
                t = f_pow(ta, tb)
        else:
            return NOT_IMPLEMENTED
        o = other if isinstance(other, ArrV) else None
        shape = merge_shape(self.shape, o.shape) if o is not None else self.shape
        axes = merge_axes(self.axes, o.axes) if o is not None else self.axes
        dtype = self.dtype if o is None or o.dtype is None or same_token(self.dtype, o.dtype) else (
            o.dtype if self.dtype is None else result_type_token([self.dtype, o.dtype]))
        return ArrV(t, shape, dtype, axes)

    def py_unop(self, interp, op):
        if op == 'USub':
            return self.like(-self.term)
        if op == 'UAdd':
            return self
        if op == 'Abs':
            return self.like(z3.If(self.term >= 0, self.term, -self.term))
        raise Unsupported(f'unary {op} on an array')

    def py_getitem(self, interp, idx):
        one = idx[0] if isinstance(idx, tuple) and len(idx) == 1 else idx
        shape, axes = None, None
        if isinstance(one, ArrV) and isinstance(self.shape, tuple) and len(self.shape) == 1:
            shape, axes = one.shape, one.axes        # a 1-d array indexed by an integer array takes the index's shape
        return ArrV(f_getitem(self.term, index_term(interp, idx)), shape, self.dtype, axes, {'getitem': (self, idx)})

    def py_getattr(self, interp, name):
        if name == 'shape':
            if self.shape is None:
                self.shape = ShapeTok(fresh_name('shape'))
            return self.shape
        if name == 'dtype':
            if self.dtype is None:
                self.dtype = z3.Const(fresh_name('dtype'), DT)
            return self.dtype
        if name == 'ndim':
            if isinstance(self.shape, tuple):
                return len(self.shape)
            raise Unsupported('ndim of an array of opaque shape')
        if name == 'size':
            if isinstance(self.shape, tuple):
                return B._prod(interp, self.shape)
            raise Unsupported('size of an array of opaque shape')
        if name in ('ravel', 'flatten'):
            return PyFunc(lambda interp: ArrV(self.term, ('ravel', self.py_getattr(interp, 'shape')), self.dtype,
                                              None, {'ravel_of': self}), 'Array.ravel')
        if name == 'reshape':
            def reshape(interp, *a):
                new = a[0] if len(a) == 1 and not B.is_intlike(a[0]) else tuple(a)
                if isinstance(new, (tuple, list)) and len(new) == 1 and concrete(new[0]) == -1:
                    # x.reshape(-1) / x.reshape((-1,)) is x.ravel(): the row-major flattening
                    return ArrV(self.term, ('ravel', self.py_getattr(interp, 'shape')), self.dtype, None, {'ravel_of': self})
                return ArrV(self.term, new, self.dtype, squeezed_axes(self.shape, self.axes, new), {'reshape_of': self})
            return PyFunc(reshape, 'Array.reshape')
        if name == 'astype':
            return PyFunc(lambda interp, dt: ArrV(cast_term(self.term, self.dtype, dt), self.shape, dt, self.axes), 'Array.astype')
        raise Unsupported(f'array attribute {name}')

    def py_iter(self, interp, expect=None):
        raise Unsupported('iteration over an array in the point facet')


f_intcast = z3.Function('CastInt', R, z3.IntSort(), R)


def _is_int_dtype(dt):
    return isinstance(dt, Ext) and 'int' in dt.path.rsplit('.', 1)[-1]


def cast_term(term, src, dst):
    """x.astype(dt): the same elements under the real-arithmetic reading of floating point — EXCEPT for an array of an
    integer dtype (pixel numbers, indices) converted to another dtype: a float holds integers exactly only up to its
    mantissa and a narrower integer wraps, so the converted value is the uninterpreted CastInt(value, dtype)"""
    if not _is_int_dtype(src):
        return term
    if _is_int_dtype(dst) and dst.path.rsplit('.', 1)[-1] == src.path.rsplit('.', 1)[-1]:
        return term
    import zlib
    code = zlib.crc32(str(getattr(dst, 'path', repr(dst))).encode()) % 1000003
    return f_intcast(term, z3.IntVal(code))


def squeezed_axes(old_shape, axes, new_shape):
    """axis names after a reshape that only drops axes of size 1 (else None: names are lost)"""
    if axes is None or not isinstance(old_shape, tuple) or not isinstance(new_shape, tuple) or len(axes) != len(old_shape):
        return None
    out, j = [], 0
    for d, ax in zip(old_shape, axes):
        if j < len(new_shape) and same_token(d, new_shape[j]):
            out.append(ax)
            j += 1
        elif concrete(d) == 1:
            continue
        else:
            return None
    return tuple(out) if j == len(new_shape) else None


class ReducedV(Value):
    """result of op.reduce() under the C01 contract: an operator denoting the same linear map as `op`"""

    def __init__(self, op):
        self.op = op

    def __repr__(self):
        return f'<reduced {self.op!r}>'


class ShapeTok(Value):
    """an opaque array shape"""

    def __init__(self, name):
        self.name = name

    def __repr__(self):
        return f'<shape {self.name}>'

    def sym_eq(self, other):
        return other is self


class SdsV(Value):
    """jax.ShapeDtypeStruct(shape, dtype): an opaque pair"""

    def __init__(self, shape, dtype):
        self.shape, self.dtype = shape, dtype

    def __repr__(self):
        return f'<sds {self.shape} {self.dtype}>'

    def py_getattr(self, interp, name):
        if name == 'shape':
            return self.shape
        if name == 'dtype':
            return self.dtype
        if name == 'ndim' and isinstance(self.shape, tuple):
            return len(self.shape)
        if name == 'size' and isinstance(self.shape, tuple):
            return B._prod(interp, self.shape)
        raise Unsupported(f'ShapeDtypeStruct attribute {name}')

    def py_eq(self, interp, other):
        if not isinstance(other, SdsV):
            return False
        return z_and(tok_eq(interp, self.shape, other.shape), tok_eq(interp, self.dtype, other.dtype))

    def sym_eq(self, other):
        if not isinstance(other, SdsV):
            return False
        return z_and(tok_eq(None, self.shape, other.shape), tok_eq(None, self.dtype, other.dtype))


def tok_eq(interp, a, b):
    if a is b:
        return True
    if isinstance(a, (PyFunc, ShapeTok)) or isinstance(b, (PyFunc, ShapeTok)):
        return a is b
    if isinstance(a, tuple) and isinstance(b, tuple) and a and isinstance(a[0], str) and a[0] in ('ravel', 'broadcast'):
        return len(a) == len(b) and a[0] == b[0] and z_and(*[tok_eq(interp, x, y) for x, y in zip(a[1:], b[1:])])
    return z_eq(a, b)


class OtherV(Value):
    """an object of a foreign type that is neither a number, an array, nor a container"""

    def __init__(self, name='other'):
        self.name = name

    def __repr__(self):
        return f'<foreign {self.name}>'


class NestV(Value):
    """leading concrete axes of an array: a nested tuple whose entries are arrays (generic elements)"""

    def __init__(self, items):
        self.items = tuple(items)

    def __repr__(self):
        return f'<nest {len(self.items)}>'

    def depth(self):
        return 1 + (self.items[0].depth() if self.items and isinstance(self.items[0], NestV) else 0)

    def py_getitem(self, interp, idx):
        c = concrete(idx)
        if isinstance(c, int) and -len(self.items) <= c < len(self.items):
            return self.items[c]
        raise Unsupported('nested array indexed by a non-constant')

    def py_iter(self, interp, expect=None):
        return list(self.items)

    def py_len(self, interp):
        return len(self.items)

    def map(self, f):
        return NestV([x.map(f) if isinstance(x, NestV) else f(x) for x in self.items])

    def py_binop(self, interp, op, other, refl):
        if isinstance(other, NestV):
            if len(other.items) != len(self.items):
                raise Unsupported('nested arrays of different leading sizes')
            pairs = zip(self.items, other.items)
            return NestV([interp.binop(op, *((y, x) if refl else (x, y))) for x, y in pairs])
        if isinstance(other, ArrV) or is_pyscalar(other):
            return self.map(lambda x: interp.binop(op, *((other, x) if refl else (x, other))))
        return NOT_IMPLEMENTED

    def py_setitem(self, interp, idx, v):
        c = concrete(idx)
        if not isinstance(c, int):
            raise Unsupported('item assignment at a non-constant position of a nested array')
        items = list(self.items)
        items[c] = v
        self.items = tuple(items)

    def py_getattr(self, interp, name):
        if name == 'shape':
            inner = self.items[0]
            ish = interp.getattr(inner, 'shape') if isinstance(inner, (ArrV, NestV)) else ()
            if not isinstance(ish, tuple):
                raise Unsupported('shape of a nested array with opaque inner shape')
            return (len(self.items),) + ish
        raise Unsupported(f'nested array attribute {name}')


class TreeDefV(Value):
    def __init__(self, shape_repr, rebuild, nleaves, is_leaf):
        self.shape_repr, self.rebuild, self.nleaves, self.is_leaf = shape_repr, rebuild, nleaves, is_leaf

    def __repr__(self):
        return f'<treedef {self.shape_repr}>'

    def sym_eq(self, other):
        return isinstance(other, TreeDefV) and other.shape_repr == self.shape_repr

    def py_eq(self, interp, other):
        return self.sym_eq(other)

    def py_getattr(self, interp, name):
        if name == 'num_leaves':
            return self.nleaves
        raise Unsupported(f'treedef attribute {name}')


class KeysV(Value):
    """jax.random.split(key, n): an array of n keys"""

    def __init__(self, key, n):
        self.key, self.n = key, n

    def get(self, i):
        return ArrV(f_split(term_of(self.key), to_z3(self.n), to_z3(i)), info={'split_of': (self.key, self.n, i)})

    def py_iter(self, interp, expect=None):
        n = concrete(self.n)
        if n is None:
            raise Unsupported('iteration over a symbolic number of keys')
        return [self.get(i) for i in range(n)]

    def py_getitem(self, interp, idx):
        return self.get(idx)

    def py_len(self, interp):
        return self.n


class BroadcastV(Value):
    def __init__(self, shape):
        self.shape = shape

    def py_getattr(self, interp, name):
        if name == 'shape':
            return self.shape
        if name == 'size':
            return B._prod(interp, self.shape)
        raise Unsupported(f'np.broadcast attribute {name}')


def index_term(interp, idx):
    """a Real token standing for an index expression (same expression object / same array -> same token)"""
    if isinstance(idx, tuple) and len(idx) == 1:
        idx = idx[0]
    if isinstance(idx, ArrV):
        return idx.term
    if is_pyscalar(idx):
        return term_of(idx)
    memo = interp.run.ghost.setdefault('index_tokens', {})
    if id(idx) not in memo:
        memo[id(idx)] = (idx, z3.Real(fresh_name('index')))
    return memo[id(idx)][1]


def result_type_token(dtypes):
    """jnp.result_type over dtype tokens: equal tokens promote to themselves, else an uninterpreted token"""
    uniq = []
    for d in dtypes:
        if not any(same_token(d, u) for u in uniq):
            uniq.append(d)
    if len(uniq) == 1:
        return uniq[0]
    return PromotedV(tuple(dtypes))


class PromotedV(Value):
    """jnp.result_type(*leaves) of leaves with (possibly) different dtypes: an opaque token of the dtype list"""

    def __init__(self, dtypes):
        self.dtypes = tuple(dtypes)

    def __repr__(self):
        return f'<result_type {self.dtypes}>'

    def sym_eq(self, other):
        # result_type is symmetric: compare the dtype lists as multisets
        if not isinstance(other, PromotedV) or len(other.dtypes) != len(self.dtypes):
            return False
        rest = list(other.dtypes)
        for a in self.dtypes:
            hit = next((i for i, b in enumerate(rest) if same_token(a, b)), None)
            if hit is None:
                return False
            del rest[hit]
        return True


def dtype_of(interp, v):
    if isinstance(v, (ArrV, SdsV)):
        return interp.getattr(v, 'dtype')
    if isinstance(v, bool):
        return WeakV('bool')
    if isinstance(v, int) or (isinstance(v, z3.ArithRef) and v.is_int()):
        return WeakV('int')
    if isinstance(v, (float, Fraction)) or isinstance(v, z3.ArithRef):
        return WeakV('float')
    raise Unsupported(f'dtype of {v!r}')


class WeakV(Value):
    """weak dtype of a Python scalar"""

    def __init__(self, kind):
        self.kind = kind

    def __repr__(self):
        return f'<weak {self.kind}>'

    def sym_eq(self, other):
        return isinstance(other, WeakV) and other.kind == self.kind


# ---------------------------------------------------------------------------------------------- pytrees
def is_pytree_dataclass(o):
    return isinstance(o, Obj) and any(any('pytree_dataclass' in _unparse(d) for d in c.decorators) for c in o.cls.mro)


def _unparse(d):
    import ast
    return ast.unparse(d)


def children(interp, v, is_leaf=None):
    """None if v is a leaf; else (kind-repr, list of children, rebuild)"""
    if is_leaf is not None and interp.truth(interp.call(is_leaf, [v], {})):
        return None
    if v is None:
        return ('None', [], lambda xs: None)
    if isinstance(v, tuple):
        return (f'tuple{len(v)}', list(v), lambda xs: tuple(xs))
    if isinstance(v, B.PyList):
        if v.seq is not None:
            raise Unsupported('pytree with a list of symbolic length')
        return (f'list{len(v.items)}', list(v.items), lambda xs: B.PyList(list(xs)))
    if isinstance(v, dict):
        keys = sorted(v.keys())
        return ('dict' + repr(keys), [v[k] for k in keys], lambda xs: dict(zip(keys, xs)))
    if is_pytree_dataclass(v):
        names = [f.name for f in v.cls.all_fields()]
        for n in names:
            if n not in v.fields:
                interp.raise_('AttributeError', n)

        def rebuild(xs, cls=v.cls, names=names):
            o = Obj(cls)
            o.fields.update(dict(zip(names, xs)))
            return o
        return (v.cls.name, [v.fields[n] for n in names], rebuild)
    if isinstance(v, (ArrV, SdsV, NestV, OtherV, KeysV, str, int, float, Fraction, bool)) or is_z3(v):
        return None
    if isinstance(v, Obj):
        raise Unsupported(f'pytree node of class {v.cls.name} (not modelled in the point facet)')
    raise Unsupported(f'pytree value {v!r}')


def flatten(interp, v, is_leaf=None):
    ch = children(interp, v, is_leaf)
    if ch is None:
        return [v], '*', (lambda xs: xs[0])
    kind, kids, rebuild = ch
    parts = [flatten(interp, k, is_leaf) for k in kids]
    counts = [len(p[0]) for p in parts]

    def rb(xs):
        out, pos = [], 0
        for p, n in zip(parts, counts):
            out.append(p[2](xs[pos:pos + n]))
            pos += n
        return rebuild(out)
    return [x for p in parts for x in p[0]], f'{kind}({",".join(p[1] for p in parts)})', rb


def one_node(rep):
    """jax.tree_util.treedef_is_leaf: the treedef has exactly one node (a leaf, None, or an empty container)"""
    return rep == '*' or rep.endswith('()')


def tree_map(interp, f, tree, rest, is_leaf=None):
    ch = children(interp, tree, is_leaf)
    if ch is None:
        return interp.call(f, [tree] + list(rest), {})
    kind, kids, rebuild = ch
    rkids = []
    for r in rest:
        rc = children(interp, r, None)
        if rc is None or rc[0] != kind:
            interp.raise_('ValueError', 'tree.map: mismatching tree structures')
        rkids.append(rc[1])
    return rebuild([tree_map(interp, f, k, [rk[i] for rk in rkids], is_leaf) for i, k in enumerate(kids)])


# ---------------------------------------------------------------------------------------------- trig lemma
def record_angle(interp, t):
    interp.run.ghost.setdefault('angles', []).append(t)


def trig_instances(base):
    """LA7 ground instances over the base angle terms (trusted lemma): Pythagoras, parity, addition and
    subtraction formulas for every ordered pair, and parity of the pair sums"""
    ax = []
    cos, sin = f_cos, f_sin
    for x in base:
        ax.append(cos(x) * cos(x) + sin(x) * sin(x) == 1)
        ax += [cos(-x) == cos(x), sin(-x) == -sin(x)]
    for x, y in itertools.product(base, base):
        ax += [cos(x + y) == cos(x) * cos(y) - sin(x) * sin(y), sin(x + y) == sin(x) * cos(y) + cos(x) * sin(y),
               cos(x - y) == cos(x) * cos(y) + sin(x) * sin(y), sin(x - y) == sin(x) * cos(y) - cos(x) * sin(y),
               cos(-(x + y)) == cos(x + y), sin(-(x + y)) == -sin(x + y)]
    return ax


# ---------------------------------------------------------------------------------------------- decorators
def apply_class_decorators(interp, ci):
    """execute the furax class decorators (`orthogonal`, `diagonal`, `symmetric`, `square`, ...) — their REAL bodies
    from furax._base.core — on the class table, bases first; third-party decorators are identities here"""
    for c in reversed(ci.mro):
        if getattr(c, '_point_decorated', False):
            continue
        c._point_decorated = True
        m = interp.P.modules[c.module]
        for d in reversed(c.decorators):
            dv = interp.ev(d, Frame(m))
            if isinstance(dv, FuncRef):
                interp.call(dv, [ClassRef(c)], {})
            elif isinstance(dv, Ext):
                interp.used_externals.add(dv.path)
            else:
                raise Unsupported(f'class decorator {_unparse(d)} on {c.name}')


def einsum_point(interp, subs, ops):
    if not isinstance(subs, str):
        raise Unsupported('einsum with non-literal subscripts')
    lhs, out = [s.strip() for s in subs.split('->')]
    terms = [t.strip() for t in lhs.split(',')]
    if len(terms) != len(ops) or any(not t.isalpha() for t in terms + [out]) or len(set(out)) != len(out):
        raise Unsupported(f'einsum subscripts {subs!r}')
    conc: dict = {}        # label -> size (concrete nesting levels)
    gen: dict = {}         # label -> (axis name, size)
    views = []
    for t, v in zip(terms, ops):
        d = v.depth() if isinstance(v, NestV) else 0
        if d > len(t) or len(set(t)) != len(t):
            raise Unsupported('einsum operand has more leading axes than labels / repeated label')
        node = v
        for lab in t[:d]:
            n = len(node.items)
            if conc.setdefault(lab, n) != n or lab in gen:
                interp.raise_('ValueError', 'einsum: inconsistent label sizes')
            node = node.items[0]
        leaf = node
        if not isinstance(leaf, ArrV) or leaf.axes is None or len(leaf.axes) != len(t) - d:
            raise Unsupported('einsum operand without axis names for its trailing labels')
        sh = leaf.shape if isinstance(leaf.shape, tuple) and len(leaf.shape) == len(leaf.axes) else [None] * len(leaf.axes)
        for lab, ax, n in zip(t[d:], leaf.axes, sh):
            if lab in conc:
                raise Unsupported('einsum label addresses a concrete axis in one operand and a generic one in another')
            if lab in gen and gen[lab][0] != ax:
                raise Unsupported('einsum label bound to two different generic axes')
            gen.setdefault(lab, (ax, n))
        views.append((t, d, v))
    for lab in gen:
        if lab not in out:
            raise Unsupported('einsum summation over a generic axis')
    for lab in out:
        if lab not in conc and lab not in gen:
            interp.raise_('ValueError', 'einsum: output label absent from the operands')
    summed = [lab for lab in conc if lab not in out]
    out_conc = [lab for lab in out if lab in conc]
    out_gen = [lab for lab in out if lab in gen]
    # numpy puts output axes in the order of `out`; the model needs the concrete ones leading
    if list(out) != out_conc + out_gen:
        raise Unsupported('einsum output interleaves concrete and generic axes')

    def entry(assign):
        total = None
        for combo in itertools.product(*[range(conc[lab]) for lab in summed]):
            a = dict(assign)
            a.update(dict(zip(summed, combo)))
            prod = None
            for t, d, v in views:
                node = v
                for lab in t[:d]:
                    node = node.items[a[lab]]
                prod = node.term if prod is None else prod * node.term
            total = prod if total is None else total + prod
        return ArrV(total if total is not None else z3.RealVal(0), tuple(gen[lab][1] for lab in out_gen), None,
                    tuple(gen[lab][0] for lab in out_gen))

    def build(i, assign):
        if i == len(out_conc):
            return entry(assign)
        lab = out_conc[i]
        return NestV([build(i + 1, {**assign, lab: k}) for k in range(conc[lab])])
    return build(0, {})


# ---------------------------------------------------------------------------------------------- install
def install(T: Theory):
    def elementwise(fn, name):
        def h(interp, *xs):
            arrs = [x for x in xs if isinstance(x, ArrV)]
            shape, axes, dtype = None, None, None
            for a in arrs:
                shape = merge_shape(shape, a.shape)
                axes = merge_axes(axes, a.axes)
                dtype = dtype if dtype is not None else a.dtype
            return ArrV(fn(*[term_of(x) for x in xs]), shape, dtype, axes)
        return h

    def cos(interp, x):
        record_angle(interp, term_of(x))
        return elementwise(f_cos, 'cos')(interp, x)

    def sin(interp, x):
        record_angle(interp, term_of(x))
        return elementwise(f_sin, 'sin')(interp, x)

    for mod in ('jax.numpy', 'numpy'):
        T.externals[f'{mod}.cos'] = cos
        T.externals[f'{mod}.sin'] = sin
        T.externals[f'{mod}.sqrt'] = elementwise(f_sqrt, 'sqrt')
        T.externals[f'{mod}.arccos'] = elementwise(f_arccos, 'arccos')
        T.externals[f'{mod}.arctan2'] = elementwise(f_arctan2, 'arctan2')
        T.externals[f'{mod}.round'] = elementwise(f_round, 'round')
    T.externals['jax.numpy.vdot'] = elementwise(f_vdot, 'vdot')

    # vdot spelled out: vdot(a, b) = dot(conj(ravel a), ravel b); conj is the identity on real arrays.  The two facts are
    # given as instances at the call of jnp.dot (no quantified axiom needed)
    def _dot(interp, a, b):
        ta, tb = term_of(a), term_of(b)
        if z3.is_app(ta) and ta.decl().eq(f_conj):
            interp.run.assume(f_dot(ta, tb) == f_vdot(ta.arg(0), tb))
        else:
            interp.run.assume(z3.Implies(z3.Not(f_iscomplex(ta)), f_dot(ta, tb) == f_vdot(ta, tb)))
        return elementwise(f_dot, 'dot')(interp, a, b)
    T.externals['jax.numpy.dot'] = _dot
    T.externals['jax.numpy.conj'] = elementwise(f_conj, 'conj')
    T.externals['jax.numpy.conjugate'] = elementwise(f_conj, 'conj')
    T.externals['jax.numpy.iscomplexobj'] = lambda interp, x: f_iscomplex(term_of(x))
    T.externals['jax.numpy.ravel'] = lambda interp, x: interp.call(interp.getattr(x, 'ravel'), [], {}) if isinstance(x, ArrV) else x
    # piecewise element-wise functions (exact over the reals) and the constant pi (an uninterpreted real constant)
    PI = z3.Real('pi')
    for mod in ('jax.numpy', 'numpy', 'math'):
        T.ext_values[f'{mod}.pi'] = PI
        T.externals[f'{mod}.minimum'] = elementwise(lambda a, b: z3.If(a <= b, a, b), 'minimum')
        T.externals[f'{mod}.maximum'] = elementwise(lambda a, b: z3.If(a >= b, a, b), 'maximum')
        T.externals[f'{mod}.abs'] = elementwise(lambda a: z3.If(a >= 0, a, -a), 'abs')

    # functional spellings of the arithmetic operators (a refactoring x**2 -> jnp.square(x), z / r -> jnp.divide(z, r) ...
    # must not leave the subset); `out=` (in-place ufunc call) is not modelled
    def functional(fn, name):
        h = elementwise(fn, name)

        def call(interp, *xs, **kw):
            if kw:
                raise Unsupported(f'{name} with keyword arguments {sorted(kw)} (in-place / where forms are not modelled)')
            return h(interp, *xs)
        return call
    for mod in ('jax.numpy', 'numpy'):
        T.externals[f'{mod}.square'] = functional(lambda a: a * a, 'square')
        T.externals[f'{mod}.negative'] = functional(lambda a: -a, 'negative')
        T.externals[f'{mod}.add'] = functional(lambda a, b: a + b, 'add')
        T.externals[f'{mod}.subtract'] = functional(lambda a, b: a - b, 'subtract')
        T.externals[f'{mod}.multiply'] = functional(lambda a, b: a * b, 'multiply')
        T.externals[f'{mod}.divide'] = functional(lambda a, b: a / b, 'divide')
        T.externals[f'{mod}.true_divide'] = functional(lambda a, b: a / b, 'true_divide')

    def clip(interp, x, min=None, max=None, **kw):      # noqa: A002
        lo = kw.get('a_min', min)
        hi = kw.get('a_max', max)
        xs = [x] + [b for b in (lo, hi) if b is not None]

        def fn(*ts):
            t = ts[0]
            i = 1
            if lo is not None:
                t = z3.If(t < ts[i], ts[i], t)
                i += 1
            if hi is not None:
                t = z3.If(t > ts[i], ts[i], t)
            return t
        return elementwise(fn, 'clip')(interp, *xs)
    T.externals['jax.numpy.clip'] = clip
    T.externals['numpy.clip'] = clip

    @T.ext('jax.numpy.isscalar')
    def _isscalar(interp, v):
        if isinstance(v, ArrV):
            if isinstance(v.shape, tuple):
                return len(v.shape) == 0
            return fresh_bool('ndim_is_0')
        if isinstance(v, (int, float, Fraction, bool, str)) or isinstance(v, z3.ArithRef):
            return True
        return False

    @T.ext('jax.numpy.array', 'jax.numpy.asarray')
    def _array(interp, v, dtype=None, **kw):
        def conv(x):
            if isinstance(x, B.PyList):
                if x.seq is not None:
                    raise Unsupported('jnp.array of a list of symbolic length')
                return NestV([conv(y) for y in x.items])
            if isinstance(x, (tuple, list)):
                return NestV([conv(y) for y in x])
            if isinstance(x, ArrV):
                return x if dtype is None else ArrV(x.term, x.shape, dtype, x.axes)
            if isinstance(x, NestV):
                return x
            return ArrV(term_of(x), (), dtype if dtype is not None else dtype_of(interp, x))
        return conv(v)

    @T.ext('jax.numpy.full')
    def _full(interp, shape, fill_value, dtype=None):
        return ArrV(term_of(fill_value), shape, dtype, None, {'full': fill_value})

    @T.ext('jax.numpy.astype')
    def _astype(interp, x, dtype):
        if isinstance(x, ArrV):
            return ArrV(cast_term(x.term, x.dtype, dtype), x.shape, dtype, x.axes, {'astype_of': x})
        return ArrV(term_of(x), (), dtype, None, {'astype_of': x})

    @T.ext('jax.numpy.result_type')
    def _result_type(interp, *xs):
        if not xs:
            interp.raise_('ValueError', 'at least one array or dtype is required')
        return result_type_token([dtype_of(interp, x) for x in xs])

    @T.ext('jax.ShapeDtypeStruct')
    def _sds(interp, shape, dtype, **kw):
        return SdsV(shape, dtype)

    @T.ext('jax.device_put')
    def _device_put(interp, x, *a, **k):
        return x

    # ---- pytrees
    @T.ext('jax.tree.map', 'jax.tree_util.tree_map')
    def _map(interp, f, tree, *rest, is_leaf=None):
        return tree_map(interp, f, tree, list(rest), is_leaf)

    @T.ext('jax.tree.leaves', 'jax.tree_util.tree_leaves')
    def _leaves(interp, tree, is_leaf=None):
        return B.PyList(flatten(interp, tree, is_leaf)[0])

    @T.ext('jax.tree.structure', 'jax.tree_util.tree_structure')
    def _structure(interp, tree, is_leaf=None):
        leaves, rep, rb = flatten(interp, tree, is_leaf)
        return TreeDefV(rep, rb, len(leaves), one_node(rep))

    @T.ext('jax.tree.flatten', 'jax.tree_util.tree_flatten')
    def _flatten(interp, tree, is_leaf=None):
        leaves, rep, rb = flatten(interp, tree, is_leaf)
        return (B.PyList(leaves), TreeDefV(rep, rb, len(leaves), one_node(rep)))

    @T.ext('jax.tree.unflatten', 'jax.tree_util.tree_unflatten')
    def _unflatten(interp, treedef, leaves):
        if not isinstance(treedef, TreeDefV):
            raise Unsupported('unflatten with a foreign treedef')
        xs = interp.iter_concrete(leaves)
        if len(xs) != treedef.nleaves:
            interp.raise_('ValueError', 'unflatten: wrong number of leaves')
        return treedef.rebuild(xs)

    @T.ext('jax.tree_util.treedef_is_leaf')
    def _treedef_is_leaf(interp, td):
        return td.is_leaf

    @T.ext('jax.eval_shape')
    def _eval_shape(interp, f, *args):
        if isinstance(f, BoundMethod) and isinstance(f.self_val, Obj) and (
                f.self_val.cls.has_ext_base('lineax.AbstractLinearOperator') or f.self_val.cls.has_ext_base('equinox.Module')):
            # hashing a bound method of an equinox Module reads every declared field
            for fld in f.self_val.cls.all_fields():
                if fld.name not in f.self_val.fields and not fld.has_default:
                    interp.raise_('AttributeError', fld.name)

        def to_arr(x):
            if isinstance(x, SdsV):
                return ArrV(z3.Real(fresh_name('abstract')), x.shape, x.dtype)
            if isinstance(x, ArrV):
                return x
            return ArrV(term_of(x), (), dtype_of(interp, x))

        def to_sds(x):
            if isinstance(x, SdsV):
                return x
            return SdsV(interp.getattr(x, 'shape'), interp.getattr(x, 'dtype'))
        ins = [tree_map(interp, PyFunc(lambda interp, x: to_arr(x), 'to_abstract'), a, []) for a in args]
        out = interp.call(f, ins, {})
        return tree_map(interp, PyFunc(lambda interp, x: to_sds(x), 'to_structure'), out, [])

    # ---- random
    @T.ext('jax.random.split')
    def _split(interp, key, num=2):
        return KeysV(key, num)

    @T.ext('jax.random.normal')
    def _normal(interp, key, shape=(), dtype=None):
        return ArrV(f_normal(term_of(key)), shape, dtype, None, {'random': ('normal', key)})

    @T.ext('jax.random.uniform')
    def _uniform(interp, key, shape=(), dtype=None, minval=0, maxval=1):
        return ArrV(f_uniform(term_of(key), term_of(minval), term_of(maxval)), shape, dtype, None,
                    {'random': ('uniform', key, minval, maxval)})

    # ---- numpy helpers used by the C16 wiring
    @T.ext('numpy.broadcast')
    def _broadcast(interp, *xs):
        shape = None
        for x in xs:
            if isinstance(x, (ArrV, NestV)):
                shape = merge_shape(shape, interp.getattr(x, 'shape'))
            elif not is_pyscalar(x):
                raise Unsupported(f'np.broadcast of {x!r}')
        shape = () if shape is None else shape
        if not isinstance(shape, tuple) or (shape and isinstance(shape[0], str)):
            raise Unsupported('np.broadcast of arrays whose shapes are not known to agree')
        return BroadcastV(shape)

    @T.ext('numpy.prod')
    def _npprod(interp, v):
        return B._prod(interp, v)

    @T.ext('numpy.empty')
    def _empty(interp, shape, dtype=None):
        if not isinstance(shape, tuple) or not shape or not isinstance(concrete(shape[0]), int):
            raise Unsupported('np.empty without a concrete leading dimension')
        rest = tuple(shape[1:])
        return NestV([ArrV(z3.Real(fresh_name('uninitialised')), rest) for _ in range(concrete(shape[0]))])

    @T.ext('jax.numpy.einsum')
    def _einsum(interp, subs, *ops, **kw):
        return einsum_point(interp, subs, list(ops))

    @T.ext('jax_healpy.ang2pix')
    def _ang2pix(interp, nside, theta, phi, **kw):
        r = elementwise(f_ang2pix, 'ang2pix')(interp, nside, theta, phi)
        return ArrV(r.term, r.shape, Ext('numpy.int64'), r.axes)          # pixel numbers are integers

    T.externals['jax.jit'] = lambda interp, f=None, **kw: f
    T.externals['jax.vmap'] = lambda interp, f=None, **kw: f

    # lineax tag registration: lx.is_diagonal.register(cls)(fn) has no effect on values
    for tag in ('is_diagonal', 'is_symmetric', 'is_lower_triangular', 'is_upper_triangular', 'is_tridiagonal',
                'is_positive_semidefinite', 'is_negative_semidefinite', 'linearise', 'conj'):
        T.externals[f'lineax.{tag}.register'] = lambda interp, cls: PyFunc(lambda interp, fn: fn, 'register')

    # ---- isinstance / equality / type
    def _isinst(interp, v, c):
        mine = isinstance(v, (ArrV, SdsV, OtherV, NestV, KeysV, ShapeTok))
        if isinstance(c, Ext):
            last = c.path.rsplit('.', 1)[-1]
            if last == 'Array' or c.path in ('jax.numpy.ndarray',):
                return isinstance(v, ArrV)
            if c.path == 'jax.ShapeDtypeStruct':
                return isinstance(v, SdsV)
            if mine or is_pytree_dataclass(v):
                return False
            if v is None or isinstance(v, (dict, ClassRef, PyFunc)):
                return False
        if mine and isinstance(c, (ClassRef, PyFunc)):
            return False
        if isinstance(c, PyFunc) and c.name in ('int', 'float', 'bool', 'str', 'tuple', 'list', 'slice', 'dict') and (
                isinstance(v, Obj) or v is None):
            return False
        return None
    T.isinstance_handlers.append(_isinst)

    def _equals(interp, a, b):
        if is_pytree_dataclass(a) or is_pytree_dataclass(b):
            if not (is_pytree_dataclass(a) and is_pytree_dataclass(b)) or a.cls is not b.cls:
                return False
            if a is b:
                return True
            names = [f.name for f in a.cls.all_fields()]
            return z_and(*[interp.truth_term(interp.equals(a.fields[n], b.fields[n])) for n in names])
        return None
    T.equals_handlers.append(_equals)

    def _power(interp, a, b):
        return f_pow(term_of(a), term_of(b))
    T.power = _power

    # module-level functions decorated with jax.jit / jax.vmap: run the real body on the generic element
    def _decorated(interp, fi, args, kwargs):
        names = [_unparse(d) for d in fi.decorators]
        if not all(n in ('jax.jit', 'jax.vmap') for n in names):
            raise Unsupported(f'decorators {names} on {fi.fullname}')
        for n in names:
            interp.used_externals.add(n)
        if 'jax.vmap' in names:
            for a in args:
                if not isinstance(a, ArrV):
                    raise Unsupported('vmap over a non-array argument')
        plain = FuncInfo(fi.module, fi.qualname, fi.node, fi.cls, fi.kind, [])
        return (interp.call_funcinfo(plain, args, kwargs),)
    T.decorated_function = lambda interp, fi, args, kwargs, _h=_decorated: _h(interp, fi, args, kwargs)
    return T


def theory():
    T = Theory()
    install(T)
    # values that are arrays at run time (numpy.ndarray is mutable: `x += ...` updates it in place)
    T.array_like = lambda v: isinstance(v, ArrV) or isinstance(v, z3.ArithRef)
    return T


# ---------------------------------------------------------------------------------------------- pack helpers
STOKES = {'I': ('StokesIPyTree', ('i',)), 'QU': ('StokesQUPyTree', ('q', 'u')),
          'IQU': ('StokesIQUPyTree', ('i', 'q', 'u')), 'IQUV': ('StokesIQUVPyTree', ('i', 'q', 'u', 'v'))}
KINDS = ('I', 'QU', 'IQU', 'IQUV')


def stokes_obj(S, kind, prefix, **arr_kw):
    """an instance of the real Stokes class with free real components `<prefix>_<c>` (recorded as inputs)"""
    clsname, comps = STOKES[kind]
    o = S.new(clsname)
    for c in comps:
        o.fields[c] = ArrV(S.real(f'{prefix}_{c}'), **arr_kw)
    return o


def stokes_struct(S, kind, shape=None, dtype=None):
    clsname, comps = STOKES[kind]
    sds = SdsV(shape if shape is not None else ShapeTok('shape'), dtype if dtype is not None else Ext('numpy.float64'))
    o = S.new(clsname)
    for c in comps:
        o.fields[c] = sds
    return o


def comp(o, c):
    v = o.fields[c]
    return v.term if isinstance(v, ArrV) else v

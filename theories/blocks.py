"""Block containers and inverses in the `alg` facet (C10, C06): vectors, application, dense forms, inverses.

Extends theories/alg.py (operators of unknown class are terms of sort Op; a pytree container of operators is a
treedef token + the sequence of its leaves).

Ghost vocabulary added here
  Vec                     uninterpreted sort: a value an operator acts on / returns (an array or a pytree of arrays)
  app(o, x) : Vec         `o.mv(x)` / `o(x)` for an operator of unknown class (callee contract of mv: C04/C05 — linear,
                          structure outs(o) for x of structure ins(o))
  vstruct(x) : Struct     the structure of a vector
  vbin_<f>(u, v) : Vec    jax.tree.map(jnp.<f>, u, v) on two vectors: the leaf-wise binary operation; vadd = vbin_add
  rowsum(a, x, k) : Vec   sum_{j<k} app(a[j], x[j]) in leaf order: rowsum(.,.,1) = app(a[0], x[0]),
                          rowsum(.,.,k+1) = vadd(rowsum(.,.,k), app(a[k], x[k]))            (definition)
  Mat(o)                  `o.as_matrix()` for an operator of unknown class (C04: the faithful dense form)
  inversed(o) : Op        `o.I` / `o.inverse()` for an operator of unknown class (C06's contract: den = inv(den o),
                          structures swapped); for a non-square o the call either raises ValueError (default
                          InverseOperator) or returns inversed(o) (closed-form inverses of non-square relabellings)

Assumed dependency contracts (trusted base)
  * jax.tree.map(f, t, *rest, is_leaf): f applied leaf by leaf in leaf order, result has t's treedef; the extra
    trees must have t's treedef down to t's leaves (else ValueError/TypeError: a `pre` obligation); what sits below
    a leaf position in an extra tree is passed whole (prefix semantics).  On two vectors with f = jnp.<binary>:
    the leaf-wise operation, requiring equal structures (a `pre` obligation).
  * jax.tree.leaves(t, is_leaf): the leaves in pytree order.   jax.tree.all(t): conjunction over the leaves.
  * jax.tree.reduce(f, t, is_leaf) WITHOUT initialiser = functools.reduce(f, leaves): left fold in leaf order;
    for ONE leaf it returns that leaf without calling f; TypeError for no leaf.  For a container of symbolic
    arity >= 2 the fold is verified by induction on the number of leaves folded so far: the pack supplies the
    invariant `acc_k = Inv(k)`; obligations: base `f(l_0, l_1) = Inv(2)`, step `f(Inv(k), l_k) = Inv(k+1)` at a generic
    k in [2, n); the result is Inv(n).  `is_leaf` must hold on every element of the leaf sequence (obligation); that it
    fails on the container's internal nodes is part of the flat-container model (checked on explicit nestings in the
    bounded scenarios, where is_leaf is called on every node).
  * jnp.hstack / jnp.vstack / jax.scipy.linalg.block_diag / jnp.linalg.inv: recording externals (which function, which
    arguments in which order); their numerical meaning is NumPy's (LA9: Mat maps row/diag/col to them).
"""
from __future__ import annotations

import z3

from pyvc import builtins_model as B
from pyvc.values import (Ext, Obj, PyFunc, PyRaise, SSeq, Unsupported, Value, concrete, fresh_int, is_z3, to_z3, z_and,
                         z_eq, zbool)
from theories import alg as A
from theories.alg import Op, OpArr, Struct, denc, denw, ins, invw, outs

Vec = z3.DeclareSort('Vec')
MatS = z3.DeclareSort('Mat')
VecArr = z3.ArraySort(z3.IntSort(), Vec)
app = z3.Function('app', Op, Vec, Vec)
vstruct = z3.Function('vstruct', Vec, Struct)
IsTupleVec = z3.Function('IsTupleVec', Vec, z3.BoolSort())      # the pytree of the vector is a tuple (of arrays / sub-pytrees)
VecLen = z3.Function('VecLen', Vec, z3.IntSort())               # its number of items
VecItem = z3.Function('VecItem', Vec, z3.IntSort(), Vec)        # its items
rowsum = z3.Function('rowsum', OpArr, VecArr, z3.IntSort(), Vec)
matof = z3.Function('Mat', Op, MatS)
inversed = z3.Function('inversed', Op, Op)
_vbin: dict = {}
_vnode: dict = {}


def vbin(name):
    if name not in _vbin:
        _vbin[name] = z3.Function('vbin_' + name, Vec, Vec, Vec)
    return _vbin[name]


def vadd(u, v):
    return vbin('add')(u, v)


def vec_axioms():
    """structures of applications and of leaf-wise sums (C05: declared structures are honest)"""
    o, x, u, v = z3.Const('o!va', Op), z3.Const('x!va', Vec), z3.Const('u!va', Vec), z3.Const('v!va', Vec)
    return [z3.ForAll([o, x], z3.Implies(vstruct(x) == ins(o), vstruct(app(o, x)) == outs(o)), patterns=[app(o, x)]),
            z3.ForAll([u, v], vstruct(vadd(u, v)) == vstruct(u), patterns=[vadd(u, v)])]


def rowsum_def(a, x, k):
    """defining equations of rowsum at k (ground instances; never quantified: the recursion would not terminate)"""
    k = z3.simplify(to_z3(k))
    return z3.And(rowsum(a, x, 1) == app(a[0], x[0]),
                  z3.Implies(k >= 1, rowsum(a, x, z3.simplify(k + 1)) == vadd(rowsum(a, x, k), app(a[k], x[k]))))


def inverse_axioms():
    """C06's contract of X.I for an operator of unknown class: denotes the inverse, structures swapped; LA3 inv(inv f) = f"""
    o = z3.Const('o!inv', Op)
    w = z3.Const('w!inv', A.Word)
    return [z3.ForAll([o], z3.And(denw(inversed(o)) == invw(denw(o)), denc(inversed(o)) == 1 / denc(o),
                                  ins(inversed(o)) == outs(o), outs(inversed(o)) == ins(o)), patterns=[inversed(o)]),
            z3.ForAll([w], invw(invw(w)) == w, patterns=[invw(invw(w))])]


def lem_inv_container(res, src, n):
    """LA4: the inverse of a block diagonal of invertible blocks is the block diagonal of the inverses — stated through
    the contract of X.I: if block k of `res` is inversed(block k of `src`) for every k (inversed(o) denotes inv(den o):
    inverse_axioms), then diag[res] = inv(diag[src]).  Pure equality reasoning: no arithmetic reaches the solver."""
    k = fresh_int('k')
    hyp = z3.ForAll([k], z3.Implies(z3.And(k >= 0, k < n), res[k] == inversed(src[k])))
    return z3.Implies(hyp, A.BLKW['Diag'](res, n) == invw(A.BLKW['Diag'](src, n)))


def reify_vec(v):
    """a Vec term for a vector given as an explicit pytree (tuple / list / dict of vectors): one constructor per node kind"""
    if is_z3(v) and v.sort() == Vec:
        return v
    if isinstance(v, B.PyList) and v.seq is None:
        kind, kids = f'list{len(v.items)}', list(v.items)
    elif isinstance(v, tuple):
        kind, kids = f'tuple{len(v)}', list(v)
    elif isinstance(v, dict):
        keys = sorted(v)
        kind, kids = 'dict' + '_'.join(map(str, keys)), [v[k] for k in keys]
    else:
        raise Unsupported(f'not a vector: {v!r}')
    kids = [reify_vec(k) for k in kids]
    if kind not in _vnode:
        _vnode[kind] = z3.Function('vnode_' + kind, *([Vec] * len(kids)), Vec)
    return _vnode[kind](*kids)


class Recorded(Value):
    """result of a recording external: which function was called with which arguments"""

    def __init__(self, what, args, kwargs=None):
        self.what, self.args, self.kwargs = what, tuple(args), dict(kwargs or {})

    def __repr__(self):
        return f'<{self.what}(...)>'


class FoldSpec:
    """invariant of a left fold over a container of symbolic arity: inv(k) = the accumulator after k leaves;
    lemmas(k) = ground lemma instances available when leaf k is folded in; facts(k) = further clauses of the invariant
    (assumed for k, proved for k + 1)"""

    def __init__(self, inv, lemmas=None, facts=None):
        self.inv = inv
        self.lemmas = lemmas or (lambda k: [])
        self.facts = facts or (lambda k: True)      # further invariant clauses about inv(k)


class BlockTheory(A.AlgTheory):
    def __init__(self, program, core_as_terms=True):
        super().__init__(program, core_as_terms)
        self.symobj_sorts = set(self.symobj_sorts)
        self.externals['jax.tree.reduce'] = self.tree_reduce
        self.externals['jax.tree_util.tree_reduce'] = self.tree_reduce
        for name in ('jax.numpy.hstack', 'jax.numpy.vstack', 'jax.scipy.linalg.block_diag', 'jax.numpy.linalg.inv'):
            self.externals[name] = (lambda name: lambda interp, *a, **k: Recorded(name, a, k))(name)
        self.isinstance_handlers.insert(0, self.vec_isinstance)
        self.sort_lens = dict(self.sort_lens)
        self.sort_item = dict(self.sort_item)
        self.sort_iters = dict(self.sort_iters)
        self.sort_lens['Vec'] = self._vec_len
        self.sort_item['Vec'] = self._vec_item
        self.sort_iters['Vec'] = self._vec_iter

    # ---- a vector is never an operator; it MAY be a tuple: "blocks whose own inputs or outputs are pytrees" (C10) — the
    # pytree a block returns can be a tuple of arrays, so `isinstance(value, tuple)` on a vector is a free Boolean
    # IsTupleVec(v), with len(v) = VecLen(v) >= 0, items VecItem(v, i) that are vectors again (arrays or sub-pytrees, never
    # operators), unpacking `a, b = v` demanding a tuple of that length (TypeError / ValueError otherwise), and calling a
    # vector raising TypeError
    def vec_isinstance(self, interp, v, c):
        if is_z3(v) and v.sort() in (Vec, MatS, Struct):
            if v.sort() == Vec and ((isinstance(c, Ext) and c.path == 'builtins.tuple')
                                    or (isinstance(c, PyFunc) and c.name == 'tuple')):
                return IsTupleVec(v)
            return False
        return None

    def _vec_len(self, interp, v):
        interp.run.assume(VecLen(v) >= 0)
        if not interp.run.branch(IsTupleVec(v)):
            raise Unsupported('len() of a vector that is not a tuple pytree (array length: not modelled)')
        return VecLen(v)

    def _vec_item(self, interp, v, idx):
        if not B.is_intlike(idx):
            raise Unsupported('vector indexed by something else than an integer')
        return VecItem(v, to_z3(idx))

    def _vec_iter(self, interp, v, expect):
        # tuple unpacking `a, b = v`: works iff v is a tuple of exactly `expect` items
        if expect is None:
            raise Unsupported('iteration over a vector of unknown arity')
        interp.run.assume(VecLen(v) >= 0)
        if not interp.run.branch(IsTupleVec(v)):
            # an array: iterating yields its rows — `expect` of them only for a matching leading dimension (not modelled)
            raise Unsupported('unpacking a vector that is not a tuple pytree')
        if not interp.run.branch(VecLen(v) == expect):
            interp.raise_('ValueError', 'unpack length mismatch')
        return [VecItem(v, z3.IntVal(i)) for i in range(expect)]

    # ---- operators of unknown class: application, dense form, inverse
    def op_getattr(self, interp, o, name):
        if name in ('mv', '__call__'):
            return PyFunc(lambda interp, x: self.apply(interp, o, x), 'Op.' + name)
        if name == 'as_matrix':
            return PyFunc(lambda interp: matof(o), 'Op.as_matrix')
        if name == 'I':
            return self.inverse_contract(interp, o)
        if name == 'inverse':
            return PyFunc(lambda interp: self.inverse_contract(interp, o), 'Op.inverse')
        return super().op_getattr(interp, o, name)

    def apply(self, interp, o, x):
        if is_z3(x) and x.sort() == Op:
            interp.raise_('ValueError', "Use '@' to compose operators")
        return app(o, reify_vec(x))

    def symobj_call(self, interp, f, args, kwargs):
        if is_z3(f) and f.sort() == Op and len(args) == 1 and not kwargs:
            return self.apply(interp, f, args[0])        # AbstractLinearOperator.__call__ (C02/C04)
        if is_z3(f) and f.sort() == Vec:
            interp.raise_('TypeError', 'a vector (array / pytree of arrays) is not callable')
        raise Unsupported('call of symbolic object')

    def inverse_contract(self, interp, o):
        """X.I / X.inverse() for an operator of unknown class (C06, per class): square -> inversed(X); non-square -> the
        default InverseOperator refuses (ValueError), a closed-form relabelling (MoveAxisOperator) returns its inverse"""
        run = interp.run
        if run.branch(ins(o) == outs(o)):
            return inversed(o)
        if run.decide(2) == 0:
            interp.raise_('ValueError', 'Only square operators can be inverted.')
        return inversed(o)

    # ---- pytrees
    def tree_map(self, interp, f, tree, *rest, is_leaf=None):
        if is_z3(tree) and tree.sort() == Vec:
            if isinstance(f, Ext) and f.path.startswith('jax.numpy.') and len(rest) == 1 and is_z3(rest[0]) \
                    and rest[0].sort() == Vec:
                interp.run.oblige(f'{interp.cur_name()}/pre:tree.map-vectors-of-one-structure',
                                  vstruct(tree) == vstruct(rest[0]), kind='pre', meta=self._meta(interp))
                return vbin(f.path.rsplit('.', 1)[1])(tree, rest[0])
            raise Unsupported(f'tree.map of {f!r} over vectors')
        return super().tree_map(interp, f, tree, *rest, is_leaf=is_leaf)

    def check_is_leaf(self, interp, is_leaf, seq, what):
        if is_leaf is None:
            return
        n = to_z3(seq.length)
        cn = concrete(seq.length)
        idx = list(range(cn)) if cn is not None else [fresh_int('leafpos')]
        for j in idx:
            t = interp.truth_term(interp.call(is_leaf, [seq.get(j)], {}))
            if t is True:
                continue
            goal = zbool(t) if cn is not None else z3.ForAll([j], z3.Implies(z3.And(j >= 0, j < n), zbool(t)))
            interp.run.oblige(f'{interp.cur_name()}/pre:{what}-is_leaf-holds-on-every-leaf', goal, kind='pre',
                              meta=self._meta(interp))

    def tree_reduce(self, interp, f, tree, *init, is_leaf=None):
        if init:
            raise Unsupported('tree.reduce with an initialiser')
        if not isinstance(tree, B.PyList):
            raise Unsupported(f'tree.reduce over {tree!r} in the alg facet')
        seq = tree.as_seq()
        self.check_is_leaf(interp, is_leaf, seq, 'tree.reduce')
        run = interp.run
        cn = concrete(seq.length)
        if cn is not None:
            items = seq.py_items()
            if not items:
                interp.raise_('TypeError', 'reduce() of empty iterable with no initial value')
            acc = items[0]
            for x in items[1:]:
                acc = interp.call(f, [acc, x], {})
            return acc
        n = to_z3(seq.length)
        if run.branch(n <= 0):
            interp.raise_('TypeError', 'reduce() of empty iterable with no initial value')
        if run.branch(n == 1):
            return seq.get(0)           # a single leaf is returned as it is: f is NOT called
        spec = run.ghost.get('fold_spec')
        if spec is None:
            raise Unsupported('tree.reduce over a container of symbolic arity needs a fold invariant')
        meta = self._meta(interp)
        name = interp.cur_name()
        for lem in spec.lemmas(1):
            run.assume(lem)
        acc2 = interp.call(f, [seq.get(0), seq.get(1)], {})
        run.oblige(f'{name}/inv-init:fold-of-the-first-two-leaves', z_and(z_eq(acc2, spec.inv(2)), spec.facts(2)),
                   kind='inv-init', meta=meta, exact=False)

        def step(sub, k):
            for lem in spec.lemmas(k):
                sub.run.assume(lem)
            sub.run.assume(spec.facts(k))
            v = sub.call(f, [spec.inv(k), seq.get(k)], {})
            k1 = z3.simplify(k + 1)
            sub.run.oblige(f'{name}/inv-pres:fold-step', z_and(z_eq(v, spec.inv(k1)), spec.facts(k1)), kind='inv-pres',
                           meta=meta, exact=False)
            return v
        j, outs_ = interp.explore_at(step, 2, n, 'fold')
        for c, o in outs_:
            if o[0] == 'raise':
                some = z3.Exists([j], z3.And(j >= 2, j < n, zbool(c))) if c is not True else (n > 2)
                if run.branch(some):
                    raise PyRaise(o[1])
        run.assume(spec.facts(n))
        return spec.inv(n)


class NestedBlockTheory(BlockTheory):
    """explicit (concrete) nestings of tuples / lists / dicts: jax's own recursion, is_leaf called on every node"""

    def tree_map(self, interp, f, tree, *rest, is_leaf=None):
        from theories import point as PT
        if is_z3(tree) and tree.sort() == Vec:
            return super().tree_map(interp, f, tree, *rest, is_leaf=is_leaf)
        return PT.tree_map(interp, f, tree, list(rest), is_leaf)

    def tree_leaves(self, interp, tree, is_leaf=None):
        from theories import point as PT
        return B.PyList(PT.flatten(interp, tree, is_leaf)[0])

    def tree_all(self, interp, tree):
        from theories import point as PT
        return z_and(*[interp.truth_term(x) for x in PT.flatten(interp, tree, None)[0]])

    def tree_reduce(self, interp, f, tree, *init, is_leaf=None):
        from theories import point as PT
        if init:
            raise Unsupported('tree.reduce with an initialiser')
        items = PT.flatten(interp, tree, is_leaf)[0]
        if not items:
            interp.raise_('TypeError', 'reduce() of empty iterable with no initial value')
        acc = items[0]
        for x in items[1:]:
            acc = interp.call(f, [acc, x], {})
        return acc


def shape_of(v):
    """(kind-string, leaves) of an explicit nesting whose leaves are z3 terms / python tuples are nodes"""
    if isinstance(v, B.PyList) and v.seq is None:
        parts = [shape_of(x) for x in v.items]
        return 'list(' + ','.join(p[0] for p in parts) + ')', [x for p in parts for x in p[1]]
    if isinstance(v, tuple):
        parts = [shape_of(x) for x in v]
        return 'tuple(' + ','.join(p[0] for p in parts) + ')', [x for p in parts for x in p[1]]
    if isinstance(v, dict):
        keys = sorted(v)
        parts = [shape_of(v[k]) for k in keys]
        return 'dict(' + ','.join(f'{k}:{p[0]}' for k, p in zip(keys, parts)) + ')', [x for p in parts for x in p[1]]
    return '*', [v]

"""`struct` facet: arrays / ShapeDtypeStruct leaves as (ndim, shape, size, dtype, data-token), pytrees as
sequences of leaves; dependency contracts of the jax / numpy calls that only move shapes around.

Assumed contracts (trusted base, listed in evidence under the `dep:` names actually used):
  * leaf.reshape(s): legal iff no entry < -1, at most one -1, and sizes agree (one -1: the product of the
    others is non-zero and divides the size); result has the stated shape, same dtype, same row-major
    element order (the ghost `data` token is unchanged).  An illegal call is a `pre` obligation.
  * jax.tree.leaves(t): the leaves of t in pytree order; jax.tree.map(f, t, *rest): f applied leaf by
    leaf, independently, same treedef (rest must have t's treedef).
  * jax.ShapeDtypeStruct(shape, dtype): records shape and dtype as given.
  * jnp.moveaxis(a, src, dst): uninterpreted relabelling token Moveaxis(data, src, dst) with numpy's shape rule
    only through its own ghost function (shape statements about moveaxis are bounded per rank elsewhere).
"""
from __future__ import annotations

import z3

from pyvc import builtins_model as B
from pyvc.theory import Theory
from pyvc.values import (Ext, Obj, PyFunc, SSeq, Unsupported, Value, concrete, fresh_const, fresh_int, fresh_name,
                         is_intlike, is_z3, to_z3, z_and, z_eq, z_implies, z_ite, z_not, z_or, zbool)

Leaf = z3.DeclareSort('Leaf')
DType = z3.DeclareSort('DType')
Data = z3.DeclareSort('Data')
IntArr = z3.ArraySort(z3.IntSort(), z3.IntSort())
f_ndim = z3.Function('ndim', Leaf, z3.IntSort())
f_shape = z3.Function('shape', Leaf, IntArr)
f_size = z3.Function('size', Leaf, z3.IntSort())
f_dtype = z3.Function('dtype', Leaf, DType)
f_data = z3.Function('data', Leaf, Data)
f_isarray = z3.Function('is_array', Leaf, z3.BoolSort())
Pprod = z3.Function('Pprod', IntArr, z3.IntSort(), z3.IntSort(), z3.IntSort())     # product of arr[lo:hi]
SeqSort = z3.DeclareSort('IntSeqTok')
f_moveaxis = z3.Function('Moveaxis', Data, IntArr, z3.IntSort(), IntArr, z3.IntSort(), Data)


# ---- product lemmas (fold lemmas; proved by induction in props/lemmas.py, instantiated explicitly) ----
def _s(x):
    return z3.simplify(to_z3(x))


def prod_split(arr, lo, mid, hi):
    lo, mid, hi = _s(lo), _s(mid), _s(hi)
    return z3.Implies(z3.And(lo <= mid, mid <= hi), Pprod(arr, lo, hi) == Pprod(arr, lo, mid) * Pprod(arr, mid, hi))


def prod_single(arr, i):
    i = _s(i)
    return Pprod(arr, i, _s(i + 1)) == arr[i]


def prod_empty(arr, i):
    i = _s(i)
    return Pprod(arr, i, i) == 1


def prod_cong(a, lo, hi, b, d):
    lo, hi, d = _s(lo), _s(hi), _s(d)
    k = fresh_int('k')
    return z3.Implies(z3.ForAll([k], z3.Implies(z3.And(lo <= k, k < hi), a[k] == b[_s(k + d)])),
                      Pprod(a, lo, hi) == Pprod(b, _s(lo + d), _s(hi + d)))


def prod_pos(arr, lo, hi):
    lo, hi = _s(lo), _s(hi)
    k = fresh_int('k')
    return z3.Implies(z3.ForAll([k], z3.Implies(z3.And(lo <= k, k < hi), arr[k] >= 1)), Pprod(arr, lo, hi) >= 1)


def prod_nonneg(arr, lo, hi):
    lo, hi = _s(lo), _s(hi)
    k = fresh_int('k')
    return z3.Implies(z3.ForAll([k], z3.Implies(z3.And(lo <= k, k < hi), arr[k] >= 0)), Pprod(arr, lo, hi) >= 0)


def full_len_of(arr):
    """the known total length of a source array (shape arrays of leaves), else None"""
    if z3.is_app(arr) and arr.decl().name() == 'shape':
        return f_ndim(arr.arg(0))
    return None


def prod_lemmas(seq: SSeq, M, n):
    """fold-lemma instances relating Pprod over the materialised array M (= seq, length n) to products over
    the arrays seq was assembled from (slices / literal items / concatenations).  Instantiated automatically
    wherever a product of a derived sequence is formed, so they do not depend on how the code names things."""
    segs = getattr(seq, 'segs', None)
    out = [prod_empty(M, 0), prod_empty(M, n)]
    if not segs:
        return out
    pos = 0
    cuts: dict = {}
    bounds = [0]
    for sg in segs:
        if sg[0] == 'item':
            out.append(prod_single(M, pos))
            nxt = pos + 1
        else:
            _, A, lo, ln = sg
            nxt = z3.simplify(pos + to_z3(ln))
            out.append(prod_cong(M, pos, nxt, A, to_z3(lo) - pos))
            cuts.setdefault(A.get_id(), (A, []))[1].extend([to_z3(lo), to_z3(lo) + to_z3(ln)])
        out.append(prod_split(M, pos, nxt, n))
        bounds.append(nxt)
        pos = nxt
    for A, cs in cuts.values():
        N = full_len_of(A)
        pts = [z3.IntVal(0)] + cs + ([N] if N is not None else [])
        uniq = []
        for c in pts:
            c = z3.simplify(c)
            if not any(z3.eq(c, u) for u in uniq):
                uniq.append(c)
        for a in uniq:
            out.append(prod_empty(A, a))
            out.append(prod_single(A, a))
            for b in uniq:
                if z3.eq(a, b):
                    continue
                out.append(prod_pos(A, a, b))
                out.append(prod_nonneg(A, a, b))
                for c in uniq:
                    if z3.eq(b, c) or z3.eq(a, c):
                        continue
                    out.append(prod_split(A, a, b, c))
    return out


class LeafV(Value):
    """an array or a ShapeDtypeStruct (is_array distinguishes them where it matters)"""

    def __init__(self, term):
        self.term = term

    def __repr__(self):
        return f'<leaf {self.term}>'

    @staticmethod
    def fresh(name='leaf'):
        return LeafV(fresh_const(name, Leaf))

    @property
    def shape(self) -> SSeq:
        arr = f_shape(self.term)
        s = SSeq(f_ndim(self.term), lambda k: arr[to_z3(k)], 'tuple')
        s.arr = arr
        s.segs = [('src', arr, 0, f_ndim(self.term))]
        return s

    def wf(self, min_dim=0):
        """well-formedness: rank >= 0, dims >= min_dim, size = product of dims"""
        t = self.term
        k = fresh_int('k')
        return z3.And(f_ndim(t) >= 0,
                      z3.ForAll([k], z3.Implies(z3.And(k >= 0, k < f_ndim(t)), f_shape(t)[k] >= min_dim)),
                      f_size(t) == Pprod(f_shape(t), 0, f_ndim(t)), f_size(t) >= 0)

    def sym_eq(self, other):
        if not isinstance(other, LeafV):
            return False
        return self.term == other.term

    def same_struct(self, other: 'LeafV'):
        return z_and(self.shape.eq(other.shape), f_dtype(self.term) == f_dtype(other.term))

    def ite_merge(self, c, other, self_is_then):
        if not isinstance(other, LeafV):
            raise Unsupported('ite of leaf and non-leaf')
        a, b = (self, other) if self_is_then else (other, self)
        return LeafV(z3.If(c, a.term, b.term))

    def py_getattr(self, interp, name):
        t = self.term
        if name == 'ndim':
            return f_ndim(t)
        if name == 'shape':
            return self.shape
        if name == 'size':
            return f_size(t)
        if name == 'dtype':
            return f_dtype(t)
        if name == 'reshape':
            return PyFunc(lambda interp, *a: leaf_reshape(interp, self, a), 'Array.reshape')
        if name == 'ravel':
            return PyFunc(lambda interp: leaf_reshape(interp, self, ((-1,),)), 'Array.ravel')
        raise Unsupported(f'leaf attribute {name}')


def leaf_reshape(interp, leaf: LeafV, args):
    if len(args) == 1 and not is_intlike(args[0]):
        new = B.as_seq(interp, args[0])
    else:
        new = SSeq.lift(tuple(args))
    run = interp.run
    t = leaf.term
    n = to_z3(new.length)
    arr, ax = new.to_array()
    for a in ax:
        run.assume(a)
    for lem in prod_lemmas(new, arr, n):
        run.assume(lem)
    neg1 = new.exists(lambda k, e: z_eq(e, -1))
    no_bad = new.forall(lambda k, e: to_z3(e) >= -1)
    i, j = fresh_int('i'), fresh_int('j')
    two = z3.Exists([i, j], z3.And(0 <= i, i < j, j < n, arr[i] == -1, arr[j] == -1))
    total = Pprod(arr, 0, n)
    # legality
    legal_plain = z3.And(z3.Not(zbool(neg1)), total == f_size(t))
    # inferred dimension, quantifier-free: size / (product of the other entries) when that is an integer
    q = z3.ToInt(z3.ToReal(f_size(t)) / z3.ToReal(-total))
    legal_infer = z3.And(zbool(neg1), z3.Not(two), total != 0, q * (-total) == f_size(t))
    run.oblige(f'{interp.cur_name()}/pre:reshape', z3.And(zbool(no_bad), z3.Or(legal_plain, legal_infer)),
               kind='pre', meta=getattr(run, '_S', None) and {'inputs': run._S.inputs, 'func': run._S.func_name,
                                                              'scenario': run._S.label} or {})
    # result (assuming legality)
    r = LeafV.fresh('reshaped')
    rt = r.term
    run.assume(z3.And(zbool(no_bad), z3.Or(legal_plain, legal_infer)))
    k = fresh_int('k')
    run.assume(z3.And(f_ndim(rt) == n, f_size(rt) == f_size(t), f_dtype(rt) == f_dtype(t), f_data(rt) == f_data(t),
                      f_isarray(rt) == f_isarray(t),
                      z3.ForAll([k], z3.Implies(z3.And(k >= 0, k < n),
                                                f_shape(rt)[k] == z3.If(arr[k] == -1, q, arr[k])),
                                patterns=[f_shape(rt)[k]])))
    return r


def prod_term(run, seq: SSeq):
    """ghost product of a (possibly derived) sequence, with the fold-lemma instances for its provenance"""
    arr, ax = seq.to_array()
    for a in ax:
        run.assume(a)
    n = to_z3(seq.length)
    for lem in prod_lemmas(seq, arr, n):
        run.assume(lem)
    return Pprod(arr, 0, n)


class StructV(Value):
    """a pytree of leaves: leaf sequence (symbolic or concrete length) + an opaque treedef token"""

    def __init__(self, leaves: SSeq, treedef=None, single=False):
        self.leaves = leaves
        self.treedef = treedef if treedef is not None else fresh_int('treedef')
        self.single = single        # the tree *is* one leaf

    def sym_eq(self, other):
        if isinstance(other, LeafV) and self.single:
            return self.leaves.get(0).same_struct(other)
        if not isinstance(other, StructV):
            return False
        return z_and(z_eq(self.treedef, other.treedef), z_eq(self.leaves.length, other.leaves.length),
                     self.leaves.forall(lambda k, e: e.same_struct(other.leaves.get(k))))


def leaves_of(interp, tree) -> SSeq:
    if isinstance(tree, StructV):
        return SSeq(tree.leaves.length, tree.leaves.get, 'list')
    if isinstance(tree, LeafV):
        return SSeq.lift([tree], 'list')
    raise Unsupported(f'tree.leaves of {tree!r}')


def install(T: Theory):
    @T.ext('jax.tree.leaves', 'jax.tree_util.tree_leaves')
    def _leaves(interp, tree, is_leaf=None):
        s = leaves_of(interp, tree)
        return B.PyList(None, seq=s) if not s.is_concrete_len() else B.PyList(s.py_items())

    @T.ext('jax.tree.map', 'jax.tree_util.tree_map')
    def _map(interp, f, tree, *rest, is_leaf=None):
        if isinstance(tree, LeafV):
            others = []
            for r in rest:
                if isinstance(r, StructV) and r.single:
                    r = r.leaves.get(0)
                if not isinstance(r, LeafV):
                    raise Unsupported('tree.map: mismatching trees')
                others.append(r)
            return interp.call(f, [tree] + others, {})
        if isinstance(tree, StructV):
            for r in rest:
                if not isinstance(r, StructV):
                    raise Unsupported('tree.map: extra tree is not a tree')
                interp.run.oblige(f'{interp.cur_name()}/pre:tree.map', z_and(z_eq(r.treedef, tree.treedef),
                                  z_eq(r.leaves.length, tree.leaves.length)), kind='pre')
            if tree.leaves.is_concrete_len():
                items = tree.leaves.py_items()
                out = [interp.call(f, [x] + [r.leaves.get(i) for r in rest], {}) for i, x in enumerate(items)]
                return StructV(SSeq.lift(out, 'list'), tree.treedef, tree.single)
            raise Unsupported('tree.map over a symbolic-length tree: verify the leaf function on a generic leaf')
        raise Unsupported(f'tree.map over {tree!r}')

    @T.ext('jax.ShapeDtypeStruct')
    def _sds(interp, shape, dtype, **kw):
        r = LeafV.fresh('sds')
        s = B.as_seq(interp, shape)
        arr, ax = s.to_array()
        for a in ax:
            interp.run.assume(a)
        k = fresh_int('k')
        interp.run.assume(z3.And(f_ndim(r.term) == to_z3(s.length), f_dtype(r.term) == dtype,
                                 z3.Not(f_isarray(r.term)),
                                 z3.ForAll([k], f_shape(r.term)[k] == arr[k], patterns=[f_shape(r.term)[k]])))
        return r

    @T.ext('jax.numpy.moveaxis')
    def _moveaxis(interp, a, source, destination):
        if not isinstance(a, LeafV):
            raise Unsupported('moveaxis of a non-array')
        src, dst = B.as_seq(interp, source), B.as_seq(interp, destination)
        sa, ax1 = src.to_array()
        da, ax2 = dst.to_array()
        for x in ax1 + ax2:
            interp.run.assume(x)
        r = LeafV.fresh('moved')
        interp.run.assume(z3.And(f_data(r.term) == f_moveaxis(f_data(a.term), sa, to_z3(src.length), da,
                                                              to_z3(dst.length)),
                                 f_ndim(r.term) == f_ndim(a.term), f_size(r.term) == f_size(a.term),
                                 f_dtype(r.term) == f_dtype(a.term)))
        r.moved_from = (a, src, dst)
        return r

    T.seq_prod = lambda interp, seq: prod_term(interp.run, seq)

    @T.ext('jax.eval_shape')
    def _eval_shape(interp, f, *args):
        # assumed: eval_shape(f, s) is the structure of f applied to arrays of structure s
        return interp.call(f, list(args), {})
    return T

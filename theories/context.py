"""Ghost state and dependency contracts for C19 (contextvars, dataclasses, the lineax calls of InverseOperator.mv).

Assumed contracts (trusted base; every use is recorded under its `dep:` name in the evidence):

  * contextvars.ContextVar(name, default=d): a variable with, in every context (thread, asyncio task,
    `copy_context().run`), its own binding; ghost state `cur` = the binding in the *current* context
    (UNSET when the variable was never set in this context).
      - var.get()       returns cur, or d when cur is UNSET (LookupError when there is no default either); writes nothing;
      - var.set(v)      cur := v; returns a fresh token remembering (var, previous cur incl. UNSET);
      - var.reset(tok)  ValueError if tok was created by another variable, RuntimeError if tok was already
                        used; otherwise cur := the value remembered by tok, tok becomes used.
    Only the current context's binding is read or written by these three calls (this is the thread / asyncio
    clause of C19: it is *assumed*, exercised natively by oracles/C19.py with real threads).
  * dataclasses.replace(obj, **kw): `type(obj)(**{f: getattr(obj, f) for every init field f, overridden by kw})`;
    TypeError for a name that is not a field.  obj is not modified.
  * dataclasses.dataclass(frozen=True): instances cannot be assigned to after __init__ (FrozenInstanceError).
  * dataclasses.dataclass(eq=True) (the default): unless the class body defines __eq__ itself, `a == b` for two
    instances of the same class is the comparison of the tuples of the fields declared with compare=True (the default
    of field()); instances of different classes are unequal.  With eq=False equality is identity.  With eq=True and
    frozen=True, __hash__ is generated from the fields with hash=True (hash=None means: follow compare), unless
    the class body defines __hash__.
  * jax.jit / equinox.filter_jit cache compiled traces under a key made of the treedefs of the arguments; static
    fields of an equinox Module are treedef metadata and are compared with == (and hashed) for that key.  Two
    operators whose static fields compare equal therefore SHARE one trace — everything the first trace read from a
    static field (solver, throw, options, callback of InverseOperator.config) is reused for the second.  Hence C19's
    capture clause needs: configurations that differ in any setting never compare equal.
  * dataclasses.fields(obj): the declared fields in order (only .name is used).
  * dataclasses.asdict(obj): dict field-name -> value where values that are themselves dataclass instances are
    converted to dicts recursively, lists/tuples/dicts are rebuilt recursively, everything else is deep-copied
    (copy.deepcopy of an immutable scalar / function is the object itself).
  * lineax: TaggedLinearOperator(op, tag) wraps op; linear_solve(A, b, solver=, throw=, options=) returns a
    Solution whose .value is the solve of A with right-hand side b computed with exactly the solver / throw /
    options it was given (it reads no furax state); jax.debug.callback(f, *args) calls f(*args) later and has
    no effect on values.  They are *recording externals*: every call is appended to the ghost trace.
"""
from __future__ import annotations

import z3

from pyvc import builtins_model as B
from pyvc.theory import Theory
from pyvc.values import (ClassRef, ExcVal, Ext, Obj, PyFunc, PyRaise, Unsupported, Value, fresh_const, fresh_name,
                         is_z3, z_eq)

AnyS = z3.DeclareSort('AnyValue')      # opaque Python values (solvers, callbacks, option values)


class Unset(Value):
    def __repr__(self):
        return '<UNSET>'


UNSET = Unset()


class ContextVarV(Value):
    """a contextvars.ContextVar; its binding in the current context lives in run.ghost (one per path)"""

    def __init__(self, name, default, has_default):
        self.name, self.default, self.has_default = name, default, has_default

    def __repr__(self):
        return f'<ContextVar {self.name}>'

    def state(self, interp):
        g = interp.run.ghost.setdefault('ctx', {})
        return g.setdefault(id(self), {'cur': UNSET, 'reads': 0, 'writes': [], 'var': self})

    def py_getattr(self, interp, name):
        st = self.state(interp)
        if name == 'get':
            def get(interp, *default):
                st['reads'] += 1
                if st['cur'] is not UNSET:
                    return st['cur']
                if default:
                    return default[0]
                if self.has_default:
                    return self.default
                interp.raise_('LookupError')
            return PyFunc(get, 'ContextVar.get')
        if name == 'set':
            def set_(interp, value):
                tok = TokenV(self, st['cur'])
                st['cur'] = value
                st['writes'].append(('set', value, tok))
                return tok
            return PyFunc(set_, 'ContextVar.set')
        if name == 'reset':
            def reset(interp, tok):
                if not isinstance(tok, TokenV):
                    interp.raise_('TypeError', 'reset() expects a Token')
                if tok.var is not self:
                    interp.raise_('ValueError', 'token was created by a different ContextVar')
                if tok.used:
                    interp.raise_('RuntimeError', 'token has already been used')
                tok.used = True
                st['cur'] = tok.old
                st['writes'].append(('reset', tok.old, tok))
                return None
            return PyFunc(reset, 'ContextVar.reset')
        if name == 'name':
            return self.name
        raise Unsupported(f'ContextVar.{name}')


class TokenV(Value):
    def __init__(self, var, old):
        self.var, self.old, self.used = var, old, False

    def __repr__(self):
        return f'<Token old={self.old!r}>'

    def py_getattr(self, interp, name):
        if name == 'var':
            return self.var
        if name == 'old_value':
            return self.old
        raise Unsupported(f'Token.{name}')


class RecordV(Value):
    """result of a recording external (lineax objects): constructor name + arguments"""

    def __init__(self, what, args, kwargs):
        self.what, self.args, self.kwargs = what, tuple(args), dict(kwargs)
        self.attrs = {}

    def __repr__(self):
        return f'<{self.what}>'

    def py_getattr(self, interp, name):
        if name not in self.attrs:
            self.attrs[name] = fresh_const(f'{self.what}.{name}', AnyS)
        return self.attrs[name]


def is_dataclass_cls(ci):
    import ast
    return any(ast.unparse(d).split('(')[0].split('.')[-1] in ('dataclass', 'pytree_dataclass') for c in ci.mro
               for d in c.decorators)


def is_frozen(ci):
    import ast
    for c in ci.mro:
        for d in c.decorators:
            if isinstance(d, ast.Call) and ast.unparse(d.func).split('.')[-1] == 'dataclass':
                for k in d.keywords:
                    if k.arg == 'frozen' and isinstance(k.value, ast.Constant) and k.value.value is True:
                        return True
    return False


def dataclass_options(ci):
    """keyword constants of the @dataclass(...) decorator found along the MRO (nearest first), e.g. {'frozen': True}"""
    import ast
    for c in ci.mro:
        for d in c.decorators:
            if ast.unparse(d).split('(')[0].split('.')[-1] == 'dataclass':
                if isinstance(d, ast.Call):
                    return {k.arg: (k.value.value if isinstance(k.value, ast.Constant) else k.value) for k in d.keywords}
                return {}
    return None


def compared_fields(ci):
    return [f for f in ci.all_fields() if f.options.get('compare', True) is not False]


def dataclass_eq(interp, a, b):
    """equals-handler: the generated __eq__ of dataclass instances (assumed contract above)"""
    from pyvc.values import z_and
    if not (isinstance(a, Obj) and isinstance(b, Obj)):
        return None
    opts = dataclass_options(a.cls)
    if opts is None or a.cls.lookup('__eq__') is not None:
        return None
    if opts.get('eq', True) is False:
        return a is b
    if a.cls is not b.cls:
        return False
    return z_and(*[z_eq(a.fields.get(f.name), b.fields.get(f.name)) for f in compared_fields(a.cls)])


def trace(interp):
    return interp.run.ghost.setdefault('trace', [])


def install(T: Theory, dataclass_pred=None):
    """dataclass_pred(value) -> bool | None: is an opaque value a dataclass instance (used by asdict)"""

    T.equals_handlers.append(dataclass_eq)

    @T.ext('contextvars.ContextVar')
    def _ctxvar(interp, name, **kw):
        return ContextVarV(name, kw.get('default'), 'default' in kw)

    @T.ext('dataclasses.replace')
    def _replace(interp, obj, **changes):
        if not isinstance(obj, Obj) or not is_dataclass_cls(obj.cls):
            interp.raise_('TypeError', 'replace() should be called on dataclass instances')
        names = [f.name for f in obj.cls.all_fields()]
        for k in changes:
            if k not in names:
                interp.raise_('TypeError', f'unexpected keyword argument {k}')
        merged = {n: obj.fields[n] for n in names if n in obj.fields}
        merged.update(changes)
        return interp.instantiate(obj.cls, [], merged)

    @T.ext('dataclasses.asdict')
    def _asdict(interp, obj):
        if not isinstance(obj, Obj) or not is_dataclass_cls(obj.cls):
            interp.raise_('TypeError', 'asdict() should be called on dataclass instances')

        def inner(v):
            if isinstance(v, Obj) and is_dataclass_cls(v.cls):
                return {f.name: inner(v.fields[f.name]) for f in v.cls.all_fields()}
            if isinstance(v, dict):
                return {k: inner(x) for k, x in v.items()}
            if isinstance(v, tuple):
                return tuple(inner(x) for x in v)
            if isinstance(v, B.PyList):
                return B.PyList([inner(x) for x in interp.iter_concrete(v)])
            if dataclass_pred is not None and dataclass_pred(v):
                # an external dataclass instance (e.g. an equinox Module): becomes a dict of its fields
                return AsDictOf(v)
            return v
        return {f.name: inner(obj.fields[f.name]) for f in obj.cls.all_fields()}

    @T.ext('dataclasses.fields')
    def _fields(interp, obj):
        # assumed: fields(obj) yields one Field per declared dataclass field, in declaration order, with `.name`
        ci = obj.cls if isinstance(obj, Obj) else (obj.info if isinstance(obj, ClassRef) else None)
        if ci is None or not is_dataclass_cls(ci):
            interp.raise_('TypeError', 'must be called with a dataclass type or instance')
        return tuple(FieldV(f.name) for f in ci.all_fields())

    @T.ext('dataclasses.dataclass')
    def _dataclass(interp, *a, **k):
        if a and isinstance(a[0], ClassRef):
            return a[0]
        return PyFunc(lambda interp, c: c, 'dataclass()')

    @T.ext('dataclasses.field')
    def _field(interp, **k):
        raise Unsupported('dataclasses.field() evaluated outside a class body')

    # ---- lineax: recording externals
    def rec(name):
        def h(interp, *a, **k):
            r = RecordV(name, a, k)
            trace(interp).append(r)
            return r
        return h
    for n in ('lineax.TaggedLinearOperator', 'lineax.linear_solve', 'lineax.CG', 'lineax.BiCGStab', 'lineax.GMRES'):
        T.externals[n] = rec(n)
    T.ext_values['lineax.positive_semidefinite_tag'] = Ext('lineax.positive_semidefinite_tag')

    @T.ext('jax.debug.callback')
    def _callback(interp, f, *a, **k):
        trace(interp).append(RecordV('jax.debug.callback', (f,) + a, k))
        return None
    return T


class FieldV(Value):
    """a dataclasses.Field: only `.name` is modelled"""

    def __init__(self, name):
        self.name = name

    def py_getattr(self, interp, name):
        if name == 'name':
            return self.name
        raise Unsupported(f'dataclasses.Field.{name}')


class AsDictOf(Value):
    """asdict() of an external dataclass instance: a dict of its fields — in particular NOT the instance"""

    def __init__(self, src):
        self.src = src

    def sym_eq(self, other):
        return False

    def __repr__(self):
        return f'<dict of the fields of {self.src}>'

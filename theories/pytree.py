"""Generic pytree model: jax.tree.* over Python containers, repo pytree dataclasses and equinox Modules.

Assumed contracts (trusted base):
  * pytree nodes: list, tuple, dict (children in insertion order of the keys as written — jax sorts dict keys; the
    functions below treat every key the same way, so the order does not matter for what is proved with them),
    None (no children), classes decorated with jax_dataclasses.pytree_dataclass (children = fields in
    declaration order, rebuilt without calling __init__), equinox Modules, i.e. every class deriving from
    lineax.AbstractLinearOperator (children = fields not declared static, in dataclass order; static fields are
    treedef metadata; rebuilt without calling __init__: "equinox flatten/unflatten is the identity on Modules").
    Everything else is a leaf.  `is_leaf=f` cuts the traversal where f returns True.
  * jax.tree.map(f, t, *rest): f applied leaf by leaf; every tree of rest must have t's structure as a prefix at
    the nodes visited (ValueError otherwise); result has t's structure.
  * jax.tree.leaves / flatten / unflatten / structure; jax.tree_util.treedef_is_leaf(td): td is a single leaf;
    jax.tree.reduce(f, t[, init]): left fold over the leaves — without init, a single leaf is returned without
    calling f; jax.tree.all(t): all leaves true.
"""
from __future__ import annotations

import ast

from pyvc import builtins_model as B
from pyvc.theory import Theory
from pyvc.values import Obj, PyFunc, Unsupported, Value, z_and

MODULE_BASES = ('lineax.AbstractLinearOperator', 'equinox.Module')


def is_pytree_dataclass(ci):
    return any(ast.unparse(d).split('(')[0].split('.')[-1] == 'pytree_dataclass' for c in ci.mro for d in c.decorators)


def is_module(ci):
    return any(ci.has_ext_base(b) for b in MODULE_BASES)


def node_children(v):
    """(kind, keys, children) for a container node, or None for a leaf"""
    if v is None:
        return ('none', [], [])
    if isinstance(v, tuple):
        return ('tuple', list(range(len(v))), list(v))
    if isinstance(v, list):
        return ('list', list(range(len(v))), list(v))
    if isinstance(v, B.PyList):
        if v.seq is not None:
            if not v.seq.is_concrete_len():
                raise Unsupported('pytree traversal of a list of symbolic length')
            items = v.seq.py_items()
        else:
            items = list(v.items)
        return ('list', list(range(len(items))), items)
    if isinstance(v, dict):
        ks = list(v.keys())
        return ('dict', ks, [v[k] for k in ks])
    if isinstance(v, Obj):
        if is_pytree_dataclass(v.cls):
            ks = [f.name for f in v.cls.all_fields()]
            return (('dataclass', v.cls), ks, [v.fields[k] for k in ks])
        if is_module(v.cls):
            ks = [f.name for f in v.cls.all_fields() if not f.static]
            missing = [k for k in ks if k not in v.fields]
            if missing:
                raise Unsupported(f'pytree traversal of a Module with unassigned fields {missing}')
            return (('module', v.cls, v), ks, [v.fields[k] for k in ks])
    return None


def rebuild(kind, keys, children, proto=None):
    if kind == 'none':
        return None
    if kind == 'tuple':
        return tuple(children)
    if kind == 'list':
        return B.PyList(list(children))
    if kind == 'dict':
        return dict(zip(keys, children))
    if kind[0] == 'dataclass':
        o = Obj(kind[1])
        o.fields.update(dict(zip(keys, children)))
        return o
    if kind[0] == 'module':
        o = Obj(kind[1])
        o.fields.update(kind[2].fields)       # static metadata carried by the treedef
        o.fields.update(dict(zip(keys, children)))
        return o
    raise Unsupported(f'rebuild {kind}')


def same_kind(a, b):
    if isinstance(a, tuple) and isinstance(b, tuple):
        return a[0] == b[0] and a[1] == b[1]
    return a == b


class TreeDefV(Value):
    def __init__(self, skel):
        self.skel = skel            # '*' | (kind, keys, [skel...])

    def is_leaf(self):
        return self.skel == '*'

    def num_leaves(self):
        def n(s):
            return 1 if s == '*' else sum(n(c) for c in s[2])
        return n(self.skel)

    def py_getattr(self, interp, name):
        if name == 'num_leaves':
            return self.num_leaves()
        raise Unsupported(f'treedef.{name}')

    def py_eq(self, interp, other):
        if not isinstance(other, TreeDefV):
            return False
        return skel_eq(self.skel, other.skel)


def skel_eq(a, b):
    if a == '*' or b == '*':
        return a == b
    return same_kind(a[0], b[0]) and a[1] == b[1] and len(a[2]) == len(b[2]) and all(skel_eq(x, y) for x, y in zip(a[2], b[2]))


def flatten(interp, tree, is_leaf=None):
    leaves = []

    def rec(t):
        if is_leaf is not None and interp.truth(interp.call(is_leaf, [t], {})):
            leaves.append(t)
            return '*'
        nc = node_children(t)
        if nc is None:
            leaves.append(t)
            return '*'
        kind, keys, ch = nc
        return (kind, keys, [rec(c) for c in ch])
    skel = rec(tree)
    return leaves, TreeDefV(skel)


def unflatten(interp, td: TreeDefV, leaves):
    it = iter(leaves)

    def rec(s):
        if s == '*':
            try:
                return next(it)
            except StopIteration:
                interp.raise_('ValueError', 'too few leaves')
        kind, keys, ch = s
        return rebuild(kind, keys, [rec(c) for c in ch])
    out = rec(td.skel)
    if next(it, None) is not None:
        interp.raise_('ValueError', 'too many leaves')
    return out


def tree_map(interp, f, tree, *rest, is_leaf=None):
    def rec(t, rs):
        if is_leaf is not None and interp.truth(interp.call(is_leaf, [t], {})):
            return interp.call(f, [t] + list(rs), {})
        nc = node_children(t)
        if nc is None:
            return interp.call(f, [t] + list(rs), {})
        kind, keys, ch = nc
        cols = []
        for r in rs:
            nr = node_children(r)
            if nr is None or not same_kind(nr[0], kind) or nr[1] != keys:
                interp.raise_('ValueError', 'tree.map: mismatching tree structures')
            cols.append(nr[2])
        return rebuild(kind, keys, [rec(c, [col[i] for col in cols]) for i, c in enumerate(ch)])
    return rec(tree, list(rest))


def install(T: Theory):
    @T.ext('jax.tree.map', 'jax.tree_util.tree_map')
    def _map(interp, f, tree, *rest, is_leaf=None):
        return tree_map(interp, f, tree, *rest, is_leaf=is_leaf)

    @T.ext('jax.tree.leaves', 'jax.tree_util.tree_leaves')
    def _leaves(interp, tree, is_leaf=None):
        return B.PyList(flatten(interp, tree, is_leaf)[0])

    @T.ext('jax.tree.flatten', 'jax.tree_util.tree_flatten')
    def _flatten(interp, tree, is_leaf=None):
        leaves, td = flatten(interp, tree, is_leaf)
        return (B.PyList(leaves), td)

    @T.ext('jax.tree.unflatten', 'jax.tree_util.tree_unflatten')
    def _unflatten(interp, td, leaves):
        return unflatten(interp, td, interp.iter_concrete(leaves))

    @T.ext('jax.tree.structure', 'jax.tree_util.tree_structure')
    def _structure(interp, tree, is_leaf=None):
        return flatten(interp, tree, is_leaf)[1]

    @T.ext('jax.tree_util.treedef_is_leaf')
    def _td_is_leaf(interp, td):
        return td.is_leaf()

    @T.ext('jax.tree.reduce', 'jax.tree_util.tree_reduce')
    def _reduce(interp, f, tree, *init, is_leaf=None):
        leaves = flatten(interp, tree, is_leaf)[0]
        if init:
            acc = init[0]
        else:
            if not leaves:
                interp.raise_('TypeError', 'reduce() of empty tree with no initial value')
            acc, leaves = leaves[0], leaves[1:]
        for x in leaves:
            acc = interp.call(f, [acc, x], {})
        return acc

    @T.ext('jax.tree.all', 'jax.tree_util.tree_all')
    def _all(interp, tree, is_leaf=None):
        return z_and(*[interp.truth_term(x) for x in flatten(interp, tree, is_leaf)[0]])
    return T

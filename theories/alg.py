"""`alg` facet: operators as terms of a free typed algebra of linear maps.

Ghost vocabulary (DESIGN §3.1):
  Op, Struct, Atom, Rule         uninterpreted sorts
  denw(o) : Seq(Atom)            the word of o (product of opaque atoms; associativity and unit built in)
  denc(o) : Real                 the scalar coefficient factored out of o   (LA1: scalars are central — trusted)
  ins(o), outs(o) : Struct       input / output structures
  Ww(a, lo, hi), Wc(a, lo, hi)   word / coefficient of the product a[lo] ∘ … ∘ a[hi-1]   (fold lemmas below)
  cls(o) : Int                   class tag (index into the real class table), is_cls via the real MRO
  Chk(r, l, r'), Apl(r, l, r')   "rule r's check passes / apply succeeds on (l, r')"
  Red(l, r) := ∃ registered rule m: Chk ∧ Apl

Operators of *unknown* class are raw z3 constants of sort Op; method calls on them resolve to the ghost functions
(in_structure → ins, out_structure → outs, in_size/out_size → ghost ints, `.value` of a scalar operator → denc).
Constructing IdentityOperator / HomothetyOperator / CompositionOperator inside code under analysis yields a fresh Op
constrained by that class's invariant (the invariants are proved where the classes' own methods are verified).

Fold lemmas for W (proved by induction in props/lemmas.py; instantiated automatically at every list surgery):
  split, pair, singleton, empty, congruence under index shift.
"""
from __future__ import annotations

import z3

from pyvc import builtins_model as B
from pyvc.theory import Theory
from pyvc.values import (ClassRef, Obj, PyFunc, SSeq, Unsupported, Value, concrete, fresh_const, fresh_int, fresh_name,
                         is_z3, to_z3, z_and, z_eq, z_not, z_or, zbool)

Op = z3.DeclareSort('Op')
Struct = z3.DeclareSort('Struct')
Atom = z3.DeclareSort('Atom')
Rule = z3.DeclareSort('Rule')
Word = z3.SeqSort(Atom)
OpArr = z3.ArraySort(z3.IntSort(), Op)
RuleArr = z3.ArraySort(z3.IntSort(), Rule)

denw = z3.Function('denw', Op, Word)
denc = z3.Function('denc', Op, z3.RealSort())
ins = z3.Function('ins', Op, Struct)
outs = z3.Function('outs', Op, Struct)
insize = z3.Function('in_size', Op, z3.IntSort())
outsize = z3.Function('out_size', Op, z3.IntSort())
ssize = z3.Function('struct_size', Struct, z3.IntSort())
isHom = z3.Function('isHomothety', Op, z3.BoolSort())
isId = z3.Function('isIdentity', Op, z3.BoolSort())
Ww = z3.Function('Ww', OpArr, z3.IntSort(), z3.IntSort(), Word)
Wc = z3.Function('Wc', OpArr, z3.IntSort(), z3.IntSort(), z3.RealSort())
Chk = z3.Function('Chk', Rule, Op, Op, z3.BoolSort())
Apl = z3.Function('Apl', Rule, Op, Op, z3.BoolSort())
REG = z3.Const('REG', RuleArr)
REGLEN = z3.Int('REGLEN')
EMPTY = z3.Empty(Word)


reduced = z3.Function('reduced', Op, Op)          # X.reduce() for an operator of unknown class (C01's contract)
adjw = z3.Function('adjw', Word, Word)            # word of the adjoint
# sums and block containers: one opaque word per (container kind, operand list); congruence lemmas below
Sw = z3.Function('SumW', OpArr, z3.IntSort(), Word)
Sc = z3.Function('SumC', OpArr, z3.IntSort(), z3.RealSort())
BLKW = {k: z3.Function(k + 'W', OpArr, z3.IntSort(), Word) for k in ('Row', 'Diag', 'Col')}
TreeIn = z3.Function('TreeIn', OpArr, z3.IntSort(), Struct)      # the container's pytree of the blocks' input structures
TreeOut = z3.Function('TreeOut', OpArr, z3.IntSort(), Struct)    # ... of the blocks' output structures
# structures of the three block containers (definitions: C05/C10 prove the real in_structure/out_structure return these)
BLKS = {'Rowin': TreeIn, 'Rowout': lambda a, n: outs(a[0]), 'Diagin': TreeIn, 'Diagout': TreeOut,
        'Colin': lambda a, n: ins(a[0]), 'Colout': TreeOut}


matprod = z3.Function('matprod', Op, Op, Op)        # l @ r for operators of unknown class with matching structures


def matprod_axioms():
    l, r = z3.Const('l!mp', Op), z3.Const('r!mp', Op)
    return [z3.ForAll([l, r], z3.And(denw(matprod(l, r)) == z3.Concat(denw(l), denw(r)), denc(matprod(l, r)) == denc(l) * denc(r),
                                     ins(matprod(l, r)) == ins(r), outs(matprod(l, r)) == outs(l)),
                      patterns=[matprod(l, r)])]


scaled_by = z3.Function('scaled_by', z3.RealSort(), Op, Op)     # k * X for an operator of unknown class


def scale_axioms():
    o = z3.Const('o!sc', Op)
    k = z3.Real('k!sc')
    return [z3.ForAll([k, o], z3.And(denw(scaled_by(k, o)) == denw(o), denc(scaled_by(k, o)) == k * denc(o),
                                     ins(scaled_by(k, o)) == ins(o), outs(scaled_by(k, o)) == outs(o)),
                      patterns=[scaled_by(k, o)])]


transposed = z3.Function('transposed', Op, Op)      # X.T for an operator of unknown class (C03's contract)


def transpose_axioms():
    """callee contract of X.transpose() / X.T for an operator of unknown class: the adjoint, structures swapped; LA2: adj is
    an involution"""
    o = z3.Const('o!tr', Op)
    w = z3.Const('w!tr', Word)
    return [z3.ForAll([o], z3.And(denw(transposed(o)) == adjw(denw(o)), denc(transposed(o)) == denc(o),
                                  ins(transposed(o)) == outs(o), outs(transposed(o)) == ins(o)), patterns=[transposed(o)]),
            z3.ForAll([w], adjw(adjw(w)) == w, patterns=[adjw(adjw(w))]), adjw(EMPTY) == EMPTY]


def lem_adj_reverse(res, src, n):
    """LA2: adj is an anti-homomorphism: the product of the adjoints in reverse order is the adjoint of the product"""
    k = fresh_int('k')
    hyp = z3.ForAll([k], z3.Implies(z3.And(k >= 0, k < n), z3.And(denw(res[k]) == adjw(denw(src[n - 1 - k])),
                                                                 denc(res[k]) == denc(src[n - 1 - k]))))
    return z3.Implies(hyp, z3.And(Ww(res, 0, n) == adjw(Ww(src, 0, n)), Wc(res, 0, n) == Wc(src, 0, n)))


def lem_adj_container(fw_res, res, fw_src, src, n, fc=None):
    """LA2/LA4: the adjoint of a sum is the sum of the adjoints; adj(row[b]) = col[adj b], adj(diag[b]) = diag[adj b],
    adj(col[b]) = row[adj b]"""
    k = fresh_int('k')
    hyp = z3.ForAll([k], z3.Implies(z3.And(k >= 0, k < n), z3.And(denw(res[k]) == adjw(denw(src[k])),
                                                                 denc(res[k]) == denc(src[k]))))
    concl = fw_res(res, n) == adjw(fw_src(src, n))
    if fc is not None:
        concl = z3.And(concl, fc(res, n) == fc(src, n))
    return z3.Implies(hyp, concl)


def reduce_axioms():
    o = z3.Const('o!red', Op)
    return [z3.ForAll([o], z3.And(denw(reduced(o)) == denw(o), denc(reduced(o)) == denc(o), ins(reduced(o)) == ins(o),
                                  outs(reduced(o)) == outs(o)), patterns=[reduced(o)])]


def lem_container_cong(fw, a, b, n, fc=None):
    """equal denotations element-wise => equal container denotation (LA: containers are functions of their blocks)"""
    k = fresh_int('k')
    hyp = z3.ForAll([k], z3.Implies(z3.And(k >= 0, k < n), z3.And(denw(a[k]) == denw(b[k]), denc(a[k]) == denc(b[k]))))
    concl = fw(a, n) == fw(b, n)
    if fc is not None:
        concl = z3.And(concl, fc(a, n) == fc(b, n))
    return z3.Implies(hyp, concl)


def lem_struct_cong(kind, a, b, n):
    """a pytree of structures is a function of its leaves (and of the container layout, shared here)"""
    k = fresh_int('k')
    k2 = fresh_int('k')
    return z3.And(
        z3.Implies(z3.ForAll([k], z3.Implies(z3.And(k >= 0, k < n), ins(a[k]) == ins(b[k]))), TreeIn(a, n) == TreeIn(b, n)),
        z3.Implies(z3.ForAll([k2], z3.Implies(z3.And(k2 >= 0, k2 < n), outs(a[k2]) == outs(b[k2]))), TreeOut(a, n) == TreeOut(b, n)),
        z3.Implies(z3.ForAll([k], z3.Implies(z3.And(k >= 0, k < n), ins(a[k]) == outs(b[k]))), TreeIn(a, n) == TreeOut(b, n)),
        z3.Implies(z3.ForAll([k2], z3.Implies(z3.And(k2 >= 0, k2 < n), outs(a[k2]) == ins(b[k2]))), TreeOut(a, n) == TreeIn(b, n)))


DTypeTok = z3.DeclareSort('DTypeTok')
promoted = z3.Function('promoted_dtype', Struct, DTypeTok)
cast_to = z3.Function('cast_to', DTypeTok, z3.RealSort(), z3.RealSort())
fld_operator = z3.Function('fld_operator', Op, Op)
cls_of = z3.Function('cls', Op, z3.IntSort())     # class tag: index into the real class table (closed world)


# termination of the rule scan: an abstract potential of a chain (for furax's rules: the number of (rotation, HWP)
# inversions) and the clause "this rule application, returning two operators, decreases it"
pot = z3.Function('pot', OpArr, z3.IntSort(), z3.IntSort())
Dec = z3.Function('Dec', Rule, Op, Op, z3.BoolSort())


def Red(l, r):
    m = fresh_int('m')
    return z3.Exists([m], z3.And(m >= 0, m < REGLEN, Chk(REG[m], l, r), Apl(REG[m], l, r)))


# ------------------------------------------------------------------------------- fold lemmas (instances)
def lem_split(a, lo, m, hi):
    lo, m, hi = (z3.simplify(to_z3(x)) for x in (lo, m, hi))
    return z3.Implies(z3.And(lo <= m, m <= hi),
                      z3.And(Ww(a, lo, hi) == z3.Concat(Ww(a, lo, m), Ww(a, m, hi)),
                             Wc(a, lo, hi) == Wc(a, lo, m) * Wc(a, m, hi)))


def lem_single(a, i):
    i = z3.simplify(to_z3(i))
    return z3.And(Ww(a, i, z3.simplify(i + 1)) == denw(a[i]), Wc(a, i, z3.simplify(i + 1)) == denc(a[i]))


def lem_pair(a, i):
    i = z3.simplify(to_z3(i))
    return z3.And(Ww(a, i, z3.simplify(i + 2)) == z3.Concat(denw(a[i]), denw(a[i + 1])),
                  Wc(a, i, z3.simplify(i + 2)) == denc(a[i]) * denc(a[i + 1]))


def lem_empty(a, i):
    i = z3.simplify(to_z3(i))
    return z3.And(Ww(a, i, i) == EMPTY, Wc(a, i, i) == 1)


def lem_cong(a, lo, hi, b, d):
    lo, hi, d = (z3.simplify(to_z3(x)) for x in (lo, hi, d))
    k = fresh_int('k')
    return z3.Implies(z3.ForAll([k], z3.Implies(z3.And(k >= lo, k < hi), a[k] == b[z3.simplify(k + d)])),
                      z3.And(Ww(a, lo, hi) == Ww(b, z3.simplify(lo + d), z3.simplify(hi + d)),
                             Wc(a, lo, hi) == Wc(b, z3.simplify(lo + d), z3.simplify(hi + d))))


def lem_den_cong(a, b, lo, hi):
    """element-wise equal denotations => equal products (W is a function of the denotations; induction)"""
    lo, hi = (z3.simplify(to_z3(x)) for x in (lo, hi))
    k = fresh_int('k')
    return z3.Implies(z3.ForAll([k], z3.Implies(z3.And(k >= lo, k < hi),
                                                z3.And(denw(a[k]) == denw(b[k]), denc(a[k]) == denc(b[k])))),
                      z3.And(Ww(a, lo, hi) == Ww(b, lo, hi), Wc(a, lo, hi) == Wc(b, lo, hi)))


def lem_filter_prefix(g, m):
    """selection lemma, prefix instance (proved by induction on m in props/lemmas.py): a prefix of m kept elements stays
    in place"""
    S, R, n0, n, idx, keep = g['S'], g['R'], g['n0'], g['n'], g['idx'], g['keep']
    j = fresh_int('j')
    allkept = z3.ForAll([j], z3.Implies(z3.And(0 <= j, j < m), keep(S[j])))
    return z3.Implies(z3.And(0 <= m, m <= n0, allkept),
                      z3.And(m <= n, z3.ForAll([j], z3.Implies(z3.And(0 <= j, j < m), z3.And(idx(j) == j, R.arr[j] == S[j])))))


def lem_filter_suffix(g, m):
    """selection lemma, suffix instance (mirror image): a suffix S[m:] of kept elements stays at the end"""
    S, R, n0, n, idx, keep = g['S'], g['R'], g['n0'], g['n'], g['idx'], g['keep']
    j, t = fresh_int('j'), fresh_int('t')
    allkept = z3.ForAll([j], z3.Implies(z3.And(m <= j, j < n0), keep(S[j])))
    d = n - (n0 - m)
    return z3.Implies(z3.And(0 <= m, m <= n0, allkept),
                      z3.And(d >= 0, z3.ForAll([t], z3.Implies(z3.And(0 <= t, t < n0 - m),
                                                               z3.And(idx(d + t) == m + t, R.arr[d + t] == S[m + t])))))


def ax_empty():
    a = z3.Const('a!ax', OpArr)
    i = z3.Int('i!ax')
    return z3.ForAll([a, i], z3.And(Ww(a, i, i) == EMPTY, Wc(a, i, i) == 1), patterns=[Ww(a, i, i), Wc(a, i, i)])


def chain_ok(arr, n, lo=0):
    j = fresh_int('j')
    return z3.ForAll([j], z3.Implies(z3.And(j >= to_z3(lo), j + 1 < to_z3(n)), ins(arr[j]) == outs(arr[j + 1])))


def op_seq(name, length=None):
    """a symbolic list of operators of unknown class"""
    s = SSeq.fresh(name, Op, None, 'list', length)
    return s


def arr_of(run, seq: SSeq, interp=None):
    arr, ax = seq.to_array(Op, unwrap=(lambda v: to_op(interp, v, run)) if interp is not None else None)
    for a in ax:
        run.assume(a)
    return arr


def to_op(interp, v, run=None):
    """the Op term standing for an operator value; instances of known classes are reified: a fresh constant with the
    denotation their class invariant gives them (cached on the instance)"""
    if is_z3(v) and v.sort() == Op:
        return v
    if isinstance(v, Obj):
        t = getattr(v, '_op_term', None)
        if t is None:
            t = fresh_const('obj_' + v.cls.name, Op)
            v._op_term = t
            c, w, i_, o_ = den_of(interp, v)
            (run or interp.run).assume(z3.And(denc(t) == c, denw(t) == w, ins(t) == i_, outs(t) == o_))
        return t
    raise Unsupported(f'not an operator: {v!r}')


class ScalarArr(Value):
    """jnp.asarray(k): a real value together with its shape (() for scalars; anything else is 'not a scalar')"""

    def __init__(self, value, shape):
        self.value, self.shape = value, shape

    def py_getattr(self, interp, name):
        if name == 'shape':
            return self.shape
        raise Unsupported(f'array attribute {name}')

    def py_binop(self, interp, op, other, refl):
        o = other.value if isinstance(other, ScalarArr) else other
        a, b = (o, self.value) if refl else (self.value, o)
        return ScalarArr(B.scalar_binop(interp, op, a, b), self.shape)


class TreeDefTok(Value):
    """jax.tree.structure(container): (treedef token, number of leaves); `==` compares both"""

    def __init__(self, treedef, n):
        self.treedef, self.n = treedef, n

    def sym_eq(self, other):
        if not isinstance(other, TreeDefTok):
            return False
        return z_and(z_eq(self.treedef, other.treedef), z_eq(self.n, other.n))

    def py_eq(self, interp, other):
        return self.sym_eq(other)


class AlgTheory(Theory):
    """method calls / isinstance on Op terms, construction of the core classes, list-surgery lemma instances"""

    def __init__(self, program, core_as_terms=True):
        super().__init__()
        self.P = program
        self.symobj_sorts = {'Op', 'Rule'}
        self.sort_attr['Op'] = self.op_getattr
        self.sort_attr['Rule'] = self.rule_getattr
        self.sort_attr['Leaf'] = leaf_getattr
        self.isinstance_handlers.append(self.op_isinstance)
        self.cls_id = program.cls('IdentityOperator')
        self.cls_hom = program.cls('HomothetyOperator')
        if core_as_terms:      # IdentityOperator(...) / HomothetyOperator(...) built by code under analysis become Op terms
            self.instantiate_overrides[self.cls_id.fullname] = self.mk_identity
            self.instantiate_overrides[self.cls_hom.fullname] = self.mk_homothety
        self.module_overrides[('furax._base.rules', 'BINARY_RULE_REGISTRY')] = lambda interp: self.registry()
        self.externals['jax.numpy.array'] = lambda interp, v, **kw: v
        self.externals['jax.numpy.asarray'] = self.asarray
        self.externals['jax.tree.map'] = self.tree_map
        self.externals['jax.tree.leaves'] = self.tree_leaves
        self.externals['jax.tree.all'] = self.tree_all
        self.externals['jax.tree.structure'] = self.tree_structure
        self.equals_handlers.append(self.struct_eq)
        self.identical_handlers.append(self.op_identical)
        from props import C08
        C08.patch_class_table(program)        # decorators' rewiring (square / symmetric / orthogonal), real bodies

    def asarray(self, interp, v, dtype=None, **kw):
        """jnp.asarray(k): the value itself; jnp.asarray(k, dtype=d): the value CAST to d (an uninterpreted function of
        d and k: a cast may truncate or fail, so nothing is assumed about it)"""
        if isinstance(v, ScalarArr):
            val, shape = v.value, v.shape
        else:
            val, shape = v, ()
        if dtype is not None:
            val = cast_to(dtype if is_z3(dtype) else z3.Const('some_dtype', DTypeTok), B.to_real(val))
        return ScalarArr(val, shape)

    # ---- flat pytree containers of operators (list / tuple / dict collapse to their leaf sequence + a treedef token)
    def tree_leaves(self, interp, tree, is_leaf=None):
        if is_leaf is None and (isinstance(tree, B.PyList) or (is_z3(tree) and tree.sort() == Op)):
            # operators are pytrees themselves: without is_leaf=... jax descends into their array fields
            raise Unsupported('jax.tree.leaves over operators without is_leaf descends into the operators\' own fields')
        if isinstance(tree, B.PyList):
            return B.PyList(None, seq=tree.as_seq()) if tree.seq is not None else B.PyList(list(tree.items))
        if is_z3(tree) and tree.sort() == Op:
            return B.PyList([tree])
        if is_z3(tree) and tree.sort() == Struct:
            return struct_leaves(interp, tree)
        raise Unsupported(f'tree.leaves of {tree!r} in the alg facet')

    def tree_map(self, interp, f, tree, *rest, is_leaf=None):
        if is_leaf is None and (isinstance(tree, B.PyList) or (is_z3(tree) and tree.sort() == Op)):
            raise Unsupported('jax.tree.map over operators without is_leaf descends into the operators\' own fields')
        if is_z3(tree) and tree.sort() == Op:
            return interp.call(f, [tree] + list(rest), {})
        if not isinstance(tree, B.PyList):
            raise Unsupported(f'tree.map over {tree!r} in the alg facet')
        seq = tree.as_seq()
        others = []
        for r in rest:
            if not isinstance(r, B.PyList):
                raise Unsupported('tree.map: extra tree is not a flat container')
            rs = r.as_seq()
            # jax requires the extra trees to have the first tree's structure (else ValueError / TypeError)
            interp.run.oblige(f'{interp.cur_name()}/pre:tree.map-same-treedef',
                              z_and(z_eq(rs.length, seq.length), z_eq(getattr(r, 'treedef', 0), getattr(tree, 'treedef', 0))),
                              kind='pre', meta=self._meta(interp))
            others.append(rs)
        if seq.is_concrete_len():
            out = [interp.call(f, [x] + [o.get(i) for o in others], {}) for i, x in enumerate(seq.py_items())]
            res = B.PyList(out)
        else:
            # f is applied at a generic position j (nested exploration): if it can raise there, tree.map raises for
            # some position; otherwise the result list is defined element-wise by the value f returns at each position
            n = to_z3(seq.length)
            j, outs_ = interp.explore_at(lambda sub, jj: sub.call(f, [seq.get(jj)] + [o.get(jj) for o in others], {}),
                                         0, n, 'map')
            raising = [(c, o) for c, o in outs_ if o[0] == 'raise']
            normal = [(c, o) for c, o in outs_ if o[0] == 'return']
            for c, o in raising:
                some = z3.Exists([j], z3.And(j >= 0, j < n, zbool(c))) if c is not True else (n > 0)
                if interp.run.branch(some):
                    from pyvc.values import PyRaise
                    raise PyRaise(o[1])
            # the result list is defined element-wise; its elements may be operators, structures, booleans, vectors
            # (any z3 sort) or literal tuples of such terms (one defined array per component)
            R, tup = None, False
            for c, o in normal:
                v = o[1]
                comps = tuple(z3.BoolVal(x) if isinstance(x, bool) else x for x in (v if isinstance(v, tuple) else (v,)))
                if not comps or not all(is_z3(x) for x in comps):
                    if isinstance(v, Obj):
                        raise Unsupported('tree.map over a symbolic container with a function building operator objects')
                    raise Unsupported(f'tree.map over a symbolic container returning {v!r}')
                if R is None:
                    tup = isinstance(v, tuple)
                    R = [SSeq.fresh('mapped', x.sort(), None, 'list', seq.length) for x in comps]
                elif tup != isinstance(v, tuple) or [r.arr.sort().range() for r in R] != [x.sort() for x in comps]:
                    raise Unsupported('tree.map over a symbolic container: results of different kinds on different paths')
                rng = z3.And(j >= 0, j < n, zbool(c)) if c is not True else z3.And(j >= 0, j < n)
                # triggers: the defined element, or (alternatively) the source leaf it is computed from, so that a fact
                # about leaf j of the mapped tree also instantiates the definition
                src = seq.get(j)
                pats = [src] if (is_z3(src) and z3.is_select(src)) else []
                for r, x in zip(R, comps):
                    interp.run.assume(z3.ForAll([j], z3.Implies(rng, r.arr[j] == x), patterns=[r.arr[j]] + pats))
            if R is None:
                R = [op_seq('mapped', seq.length)]
            if tup:
                rs = SSeq(seq.length, lambda k, R=R: tuple(r.get(k) for r in R), 'list')
                rs.components = R
            else:
                rs = R[0]
            res = B.PyList(None, seq=rs)
        res.treedef = getattr(tree, 'treedef', 0)
        if res.seq is not None and hasattr(res.seq, 'arr') and res.seq.arr.sort().range() == Op:
            self.after_seq_map(interp, res.seq, seq)
            if len(others) == 1 and others[0].get(fresh_int('probe')).sort() == Op:
                # block-wise products of two containers: LA4 instances for the lists at hand
                run = interp.run
                pa, la_, ra_ = arr_of(run, res.seq, interp), arr_of(run, seq, interp), arr_of(run, others[0], interp)
                nn = to_z3(seq.length)
                for (kl, kr) in RES_KIND:
                    run.assume(lem_LA4(kl, kr, la_, ra_, pa, nn))
                run.assume(lem_struct_cong(None, pa, ra_, nn))
                run.assume(lem_struct_cong(None, pa, la_, nn))
        return res

    def tree_structure(self, interp, tree, is_leaf=None):
        """jax.tree.structure of a flat container: its treedef token together with its number of leaves"""
        if isinstance(tree, B.PyList):
            return TreeDefTok(getattr(tree, 'treedef', 0), tree.as_seq().length)
        raise Unsupported(f'tree.structure of {tree!r} in the alg facet')

    def tree_all(self, interp, tree):
        if isinstance(tree, B.PyList):
            return tree.as_seq().forall(lambda k, e: interp.truth_term(e))
        raise Unsupported('tree.all')

    @staticmethod
    def _meta(interp):
        S = getattr(interp.run, '_S', None)
        if S is None:
            return {}
        m = {'inputs': dict(S.inputs), 'func': S.func_name, 'scenario': S.label}
        if S.oracle:
            m['oracle'] = S.oracle
        if getattr(S, 'pre_finding', None):
            m['finding'] = S.pre_finding       # the scenario isolates a listed finding in its dependency preconditions
        return m

    def bind(self, interp):
        from pyvc import values as V
        V.OBJ_TO_TERM = lambda v: to_op(interp, v)

    def op_identical(self, interp, a, b):
        for x, y in ((a, b), (b, a)):
            if is_z3(x) and x.sort() == Op and isinstance(y, Obj):
                t = getattr(y, '_op_term', None)
                return (x == t) if t is not None else False
        return None

    # ---- structures are opaque terms with equality
    def struct_eq(self, interp, a, b):
        if is_z3(a) and is_z3(b) and a.sort() == Struct and b.sort() == Struct:
            return a == b
        return None

    # ---- the rule registry: an arbitrary sequence of rules (any registration order, any rule set obeying the contract)
    def registry(self):
        s = SSeq(REGLEN, lambda k: REG[to_z3(k)], 'list')
        s.arr = REG
        return s

    # ---- operators of unknown class
    def op_getattr(self, interp, o, name):
        if name == 'in_structure':
            return PyFunc(lambda interp: ins(o), 'Op.in_structure')
        if name == 'out_structure':
            return PyFunc(lambda interp: outs(o), 'Op.out_structure')
        if name == 'in_size':
            return PyFunc(lambda interp: insize(o), 'Op.in_size')
        if name == 'out_size':
            return PyFunc(lambda interp: outsize(o), 'Op.out_size')
        if name == 'value':
            # only scalar operators have it: reading it on another class is an AttributeError in Python
            if not interp.run.branch(isHom(o)):
                interp.raise_('AttributeError', 'value')
            return denc(o)
        if name == 'reduce':
            return PyFunc(lambda interp: self.reduce_contract(interp, o), 'Op.reduce')
        if name == 'T':
            return transposed(o)
        if name == 'transpose':
            return PyFunc(lambda interp: transposed(o), 'Op.transpose')
        if name == 'operator':
            dual = self.op_isinstance(interp, o, ClassRef(self.P.cls('_AbstractLazyDualOperator')))
            if not interp.run.branch(dual):
                interp.raise_('AttributeError', 'operator')
            return fld_operator(o)
        raise Unsupported(f'attribute {name} of an operator of unknown class')

    def reduce_contract(self, interp, o):
        """callee contract of X.reduce() for an operator of unknown class = C01's own postcondition (same map, same
        structures), as a function so that repeated calls agree; its axioms are `reduce_axioms()`"""
        return reduced(o)

    def class_ids(self):
        if not hasattr(self, '_ids'):
            base = self.P.cls('AbstractLinearOperator')
            names = sorted(c.fullname for c in self.P.subclasses(base, concrete_only=True))
            self._ids = {n: i for i, n in enumerate(names)}
        return self._ids

    def class_axioms(self):
        o = z3.Const('o!cls', Op)
        ids = self.class_ids()
        return [z3.ForAll([o], z3.And(isHom(o) == (cls_of(o) == ids[self.cls_hom.fullname]),
                                      isId(o) == (cls_of(o) == ids[self.cls_id.fullname])), patterns=[cls_of(o)])]

    def op_isinstance(self, interp, v, c):
        if is_z3(v) and v.sort() == Op:
            if isinstance(c, ClassRef):
                if c.info == self.cls_hom:
                    return isHom(v)
                if c.info == self.cls_id:
                    return isId(v)
                if c.info.name == 'AbstractLinearOperator':
                    return True         # a term of sort Op IS an operator (closed world: every class derives from it)
                ids = self.class_ids()
                subs = [ids[d.fullname] for d in self.P.subclasses(c.info, concrete_only=True) if d.fullname in ids]
                return z_or(*[cls_of(v) == i for i in subs])
            return False if not isinstance(c, (ClassRef,)) and not hasattr(c, 'path') else None
        return None

    def mk_identity(self, interp, ci, args, kwargs):
        (s,) = args
        o = fresh_const('identity', Op)
        interp.run.assume(z3.And(isId(o), z3.Not(isHom(o)), denw(o) == EMPTY, denc(o) == 1, ins(o) == s, outs(o) == s,
                                 insize(o) == ssize(s), outsize(o) == ssize(s)))
        return o

    def mk_homothety(self, interp, ci, args, kwargs):
        value, s = args
        if isinstance(value, ScalarArr):
            value = value.value
        o = fresh_const('homothety', Op)
        interp.run.assume(z3.And(isHom(o), z3.Not(isId(o)), denw(o) == EMPTY, denc(o) == to_z3(value), ins(o) == s,
                                 outs(o) == s, insize(o) == ssize(s), outsize(o) == ssize(s)))
        return o

    # ---- `l @ r` on operators of unknown class: callee contract of __matmul__ (proved in C02)
    def symobj_dunder(self, interp, obj, name, args):
        if name in ('__matmul__', '__rmatmul__') and len(args) == 1 and is_z3(args[0]) and args[0].sort() == Op:
            l, r = (obj, args[0]) if name == '__matmul__' else (args[0], obj)
            if not interp.run.branch(ins(l) == outs(r)):
                interp.raise_('ValueError', 'Incompatible linear operator structures')
            return matprod(l, r)            # axioms: matprod_axioms()
        if name in ('__rmul__', '__mul__') and len(args) == 1 and not (is_z3(args[0]) and args[0].sort() == Op):
            # k * X for an operator of unknown class: callee contract of __rmul__ (proved in C02, scalar scenarios)
            k = args[0].value if isinstance(args[0], ScalarArr) else args[0]
            if isinstance(k, (int, float)) or (is_z3(k) and isinstance(k, z3.ArithRef)) or hasattr(k, 'numerator'):
                return scaled_by(B.to_real(k), obj)        # axioms: scale_axioms()
        return B.NOT_IMPLEMENTED

    # ---- rules of unknown class (the rule contract)
    def rule_getattr(self, interp, r, name):
        if name == 'check':
            def check(interp, left, right):
                if not interp.run.branch(Chk(r, left, right)):
                    interp.raise_(self.P.cls('NoReduction'))
                return None
            return PyFunc(check, 'Rule.check')
        if name == 'apply':
            def apply(interp, left, right):
                if not interp.run.branch(Apl(r, left, right)):
                    interp.raise_(self.P.cls('NoReduction'))
                new = op_seq('new_ops')
                run = interp.run
                n = to_z3(new.length)
                run.assume(z3.And(n >= 0, n <= 2))
                run.assume(z3.And(lem_empty(new.arr, 0), lem_empty(new.arr, n), lem_split(new.arr, 0, 1, n),
                                  lem_single(new.arr, 0), lem_single(new.arr, 1), lem_pair(new.arr, 0)))
                # rule contract (C01): the product is preserved, end structures match, sizes of the ends kept
                run.assume(z3.And(Ww(new.arr, 0, n) == z3.Concat(denw(left), denw(right)),
                                  Wc(new.arr, 0, n) == denc(left) * denc(right)))
                run.assume(z3.Implies(n >= 1, z3.And(outs(new.arr[0]) == outs(left), ins(new.arr[n - 1]) == ins(right),
                                                     outsize(new.arr[0]) == outsize(left),
                                                     insize(new.arr[n - 1]) == insize(right))))
                run.assume(z3.Implies(n == 0, outs(left) == ins(right)))
                run.assume(z3.Implies(n == 2, ins(new.arr[0]) == outs(new.arr[1])))
                # termination clause of the rule contract: a rule that does not shorten the chain decreases its potential
                run.assume(z3.Implies(n == 2, Dec(r, left, right)))
                run.ghost['last_rule'] = (r, left, right, new)
                # C07 NF3 needs: rules never return an identity operator inside a longer chain -- NOT assumed here
                return B.PyList(None, seq=new)
            return PyFunc(apply, 'Rule.apply')
        raise Unsupported(f'attribute {name} of a rule of unknown class')

    # ---- [x for x in ops if keep(x)] over a symbolic list: Python's filter semantics + the filter lemma
    def filter_comprehension(self, interp, e, g, seq, fr, elt_fn, kind):
        import ast as _ast
        from pyvc.interp import Frame
        run = interp.run
        if not isinstance(g.target, _ast.Name):
            return None

        def keep(x):
            f2 = Frame(fr.module, fr, fr.func, fr.defcls)
            f2.is_comp = True
            f2.vars[g.target.id] = x
            return z_and(*[interp.truth_term(interp.ev(c, f2)) for c in g.ifs])
        if not (isinstance(e.elt, _ast.Name) and e.elt.id == g.target.id):
            # the selected values are not the elements themselves: only the NUMBER of selected items is modelled
            # (callers test emptiness): 0 <= n <= len, n > 0 iff some element satisfies the condition
            n = fresh_int('nsel')
            run.assume(z3.And(n >= 0, n <= to_z3(seq.length),
                              (n > 0) == zbool(seq.exists(lambda k, x: keep(x)))))

            def opaque(k):
                raise Unsupported('element of a filtered comprehension whose items are not modelled')
            return SSeq(n, opaque, kind)
        S = arr_of(run, seq)
        n0 = to_z3(seq.length)
        R = op_seq('filtered')
        n = to_z3(R.length)
        idx = z3.Function(fresh_name('fidx'), z3.IntSort(), z3.IntSort())
        inv = z3.Function(fresh_name('finv'), z3.IntSort(), z3.IntSort())
        k, k2, j = fresh_int('k'), fresh_int('k'), fresh_int('j')
        # definition of the filtered list (faithful to the comprehension): an order-preserving selection of exactly
        # the elements satisfying the condition
        run.assume(z3.And(n >= 0, n <= n0,
                          z3.ForAll([k], z3.Implies(z3.And(k >= 0, k < n),
                                                    z3.And(idx(k) >= 0, idx(k) < n0, R.arr[k] == S[idx(k)],
                                                           zbool(keep(S[idx(k)])))), patterns=[R.arr[k]]),
                          z3.ForAll([k, k2], z3.Implies(z3.And(k >= 0, k < k2, k2 < n), idx(k) < idx(k2))),
                          z3.ForAll([j], z3.Implies(z3.And(j >= 0, j < n0, zbool(keep(S[j]))),
                                                    z3.And(inv(j) >= 0, inv(j) < n, idx(inv(j)) == j)), patterns=[inv(j)])))
        # selection lemma (induction on k, proved in props/lemmas.py `selection_lemmas`): a strictly increasing selection
        # of n out of n0 positions satisfies k <= idx(k) <= n0 - n + k
        run.assume(z3.ForAll([k], z3.Implies(z3.And(k >= 0, k < n), z3.And(k <= idx(k), idx(k) <= n0 - n + k)),
                             patterns=[idx(k)]))
        run.ghost['last_filter'] = dict(S=S, n0=n0, R=R, n=n, idx=idx, inv=inv, keep=lambda x: zbool(keep(x)))
        # filter lemma (induction over the list, trusted): if every dropped element is a neutral square factor, the
        # product, the typing of the chain and its end structures are unchanged
        neutral = z3.ForAll([j], z3.Implies(z3.And(j >= 0, j < n0, z3.Not(zbool(keep(S[j])))),
                                            z3.And(denw(S[j]) == EMPTY, denc(S[j]) == 1, ins(S[j]) == outs(S[j]))))
        run.assume(z3.Implies(neutral, z3.And(
            Ww(R.arr, 0, n) == Ww(S, 0, n0), Wc(R.arr, 0, n) == Wc(S, 0, n0),
            z3.Implies(chain_ok(S, n0), z3.And(
                chain_ok(R.arr, n),
                z3.Implies(n >= 1, z3.And(outs(R.arr[0]) == outs(S[0]), ins(R.arr[n - 1]) == ins(S[n0 - 1]))),
                z3.Implies(z3.And(n == 0, n0 >= 1), outs(S[0]) == ins(S[n0 - 1])))))))
        interp.run.events.append(('lemma', 'filter-preserves-product'))
        return R

    # ---- lemma instances at list surgery: operands[lo:hi] = new
    def after_list_surgery(self, interp, lst, cur: SSeq, lo, hi, new: SSeq):
        run = interp.run
        res = lst.seq
        if res is None:
            return
        try:
            a0 = arr_of(run, cur, interp)
            an = arr_of(run, new, interp)
            ar = arr_of(run, res, interp)
        except Exception:
            return
        n0, nn, nr = to_z3(cur.length), to_z3(new.length), to_z3(res.length)
        lo, hi = to_z3(lo), to_z3(hi)
        lr = run.ghost.get('last_rule')
        if lr is not None and getattr(lr[3], 'arr', None) is not None and z3.eq(lr[3].arr, an):
            r_, l_, rr_, _ = lr
            # meaning of Dec (trusted): replacing the pair by the rule's two operators lowers the potential of the chain;
            # replacing it by fewer operators never raises it
            run.assume(z3.And(pot(ar, nr) >= 0, pot(a0, n0) >= 0,
                              z3.Implies(z3.And(nn == 2, Dec(r_, l_, rr_)), pot(ar, nr) < pot(a0, n0))))
        for lem in (lem_split(a0, 0, lo, n0), lem_split(a0, lo, hi, n0), z3.Implies(hi == lo + 2, lem_pair(a0, lo)),
                    z3.Implies(hi == lo + 1, lem_single(a0, lo)),
                    lem_split(ar, 0, lo, nr), lem_split(ar, lo, lo + nn, nr),
                    lem_cong(ar, 0, lo, a0, 0), lem_cong(ar, lo, lo + nn, an, -lo),
                    lem_cong(ar, lo + nn, nr, a0, (hi - lo) - nn),
                    lem_empty(ar, 0), lem_empty(a0, 0), lem_empty(an, 0), lem_empty(ar, nr), lem_empty(a0, n0),
                    lem_empty(an, nn)):
            run.assume(lem)

    def after_list_concat(self, interp, res, a: SSeq, b: SSeq):
        run = interp.run
        try:
            aa, ab, ar = arr_of(run, a, interp), arr_of(run, b, interp), arr_of(run, res.seq, interp)
        except Exception as e:
            if __import__('os').environ.get('VF_DEBUG'):
                import traceback
                traceback.print_exc()
            return
        na, nb = to_z3(a.length), to_z3(b.length)
        nr = na + nb
        for lem in (lem_split(ar, 0, na, nr), lem_cong(ar, 0, na, aa, 0), lem_cong(ar, na, nr, ab, -na),
                    lem_empty(ar, 0), lem_empty(aa, 0), lem_empty(ab, 0), lem_empty(ar, nr),
                    z3.Implies(na == 1, lem_single(aa, 0)), z3.Implies(nb == 1, lem_single(ab, 0))):
            run.assume(lem)

    def after_seq_map(self, interp, res: SSeq, src: SSeq):
        run = interp.run
        try:
            probe = src.get(fresh_int('probe'))
            if not (is_z3(probe) and probe.sort() == Op):
                return
            a, b = arr_of(run, res), arr_of(run, src)
        except Exception:
            return
        n = to_z3(src.length)
        run.assume(lem_den_cong(a, b, 0, n))
        run.assume(lem_container_cong(Sw, a, b, n, Sc))
        for kind in ('Row', 'Diag', 'Col'):
            run.assume(lem_container_cong(BLKW[kind], a, b, n))
        run.assume(lem_struct_cong(None, a, b, n))
        k = fresh_int('k')
        # typing of the mapped chain follows from element-wise equal structures
        run.assume(z3.Implies(z3.ForAll([k], z3.Implies(z3.And(k >= 0, k < n), z3.And(ins(a[k]) == ins(b[k]),
                                                                                    outs(a[k]) == outs(b[k])))),
                              z3.Implies(chain_ok(b, n), chain_ok(a, n))))

    def after_list_append(self, interp, lst, cur: SSeq, x):
        run = interp.run
        if not ((is_z3(x) and x.sort() == Op) or isinstance(x, Obj)):
            return
        res = lst.seq
        a0 = arr_of(run, cur, interp)
        ar = arr_of(run, res, interp)
        n0 = to_z3(cur.length)
        for lem in (lem_split(ar, 0, n0, n0 + 1), lem_single(ar, n0), lem_cong(ar, 0, n0, a0, 0), lem_empty(ar, 0),
                    lem_empty(a0, 0)):
            run.assume(lem)


# ------------------------------------------------------------------------------- denotation of a value
def den_of(interp, v):
    """(coef, word, in-structure, out-structure) of an operator value: an Op term, or an instance of one of the
    container classes whose class invariant says what it denotes (proved where those classes' mv / structure
    methods are verified: C02/C04/C05/C10)"""
    run = interp.run
    if is_z3(v) and v.sort() == Op:
        return denc(v), denw(v), ins(v), outs(v)
    if isinstance(v, Obj):
        name = v.cls.name
        if getattr(v, 'plain', None) is not None:
            t = v.plain
            return denc(t), denw(t), ins(t), outs(t)
        if name == 'IdentityOperator':
            s_ = v.fields['_in_structure']
            return z3.RealVal(1), EMPTY, s_, s_
        if name == 'HomothetyOperator':
            s_ = v.fields['_in_structure']
            val = v.fields['value']
            val = val.value if isinstance(val, ScalarArr) else val
            return B.to_real(val), EMPTY, s_, s_
        if name == 'CompositionOperator':
            seq = B.as_seq(interp, v.fields['operands'])
            arr = arr_of(run, seq, interp)
            n = to_z3(seq.length)
            cn = concrete(seq.length)
            if cn is not None and cn <= 8:         # fold lemmas unrolled for a literal list of factors
                run.assume(lem_empty(arr, cn))
                for i in range(cn):
                    run.assume(lem_split(arr, i, i + 1, cn))
                    run.assume(lem_single(arr, i))
            return Wc(arr, 0, n), Ww(arr, 0, n), ins(arr[n - 1]), outs(arr[0])
        if name == 'AdditionOperator':
            seq = B.as_seq(interp, v.fields['operands'])
            arr = arr_of(run, seq, interp)
            n = to_z3(seq.length)
            return Sc(arr, n), Sw(arr, n), ins(arr[0]), outs(arr[0])
        if name in ('BlockRowOperator', 'BlockDiagonalOperator', 'BlockColumnOperator'):
            kind = {'BlockRowOperator': 'Row', 'BlockDiagonalOperator': 'Diag', 'BlockColumnOperator': 'Col'}[name]
            seq = B.as_seq(interp, v.fields['blocks'])
            arr = arr_of(run, seq, interp)
            n = to_z3(seq.length)
            return z3.RealVal(1), BLKW[kind](arr, n), BLKS[kind + 'in'](arr, n), BLKS[kind + 'out'](arr, n)
        if name in TRUE_INVERSES or name in ('DiagonalInverseOperator', 'TransposeOperator'):
            c, w, i_, o_ = den_of(interp, v.fields['operator'])
            if name == 'TransposeOperator':
                return c, adjw(w), o_, i_
            if name == 'DiagonalInverseOperator':
                # pseudo-inverse of a diagonal: equals the inverse only when no entry vanishes (not known here)
                return z3.Real(fresh_name('pinvc')), pinvw(w), o_, i_
            return 1 / c, invw(w), o_, i_
    raise Unsupported(f'denotation of {v!r}')


invw = z3.Function('invw', Word, Word)            # word of the inverse
pinvw = z3.Function('pinvw', Word, Word)          # word of the Moore-Penrose pseudo-inverse (no cancellation law)
TRUE_INVERSES = ('InverseOperator', 'AbstractLazyInverseOrthogonalOperator', 'QURotationTransposeOperator')


def lem_inverse_cancels(w, c):
    """LA3: inv f ∘ f = id = f ∘ inv f (f invertible)"""
    return z3.And(z3.Concat(invw(w), w) == EMPTY, z3.Concat(w, invw(w)) == EMPTY, c != 0)


def same_map(interp, a, b):
    ca, wa, ia, oa = den_of(interp, a)
    cb, wb, ib, ob = den_of(interp, b)
    return z3.And(ca == cb, wa == wb), z3.And(ia == ib, oa == ob)


# ------------------------------------------------------------------------------- leaves of a structure
Leaf = z3.DeclareSort('Leaf')                                      # a jax.ShapeDtypeStruct leaf of a structure
ShapeTok = z3.DeclareSort('ShapeTok')
n_leaves = z3.Function('n_leaves', Struct, z3.IntSort())
leaf_at = z3.Function('leaf_at', Struct, z3.IntSort(), Leaf)
leaf_shape = z3.Function('leaf_shape', Leaf, ShapeTok)
leaf_dtype = z3.Function('leaf_dtype', Leaf, DTypeTok)
leaf_size = z3.Function('leaf_size', Leaf, z3.IntSort())
leaf_ndim = z3.Function('leaf_ndim', Leaf, z3.IntSort())


def struct_leaves(interp, struct):
    """jax.tree.leaves(structure) of an abstract structure: the ghost sequence leaf_at(structure, 0..n_leaves).  Nothing
    says that two structures with the same leaves are equal (the container — the treedef — is part of a structure), so
    code that compares structures through their leaves alone is NOT provably comparing the structures."""
    interp.run.assume(n_leaves(struct) >= 0)
    from pyvc.values import SSeq as _SSeq
    return B.PyList(None, seq=_SSeq(n_leaves(struct), lambda k: leaf_at(struct, to_z3(k)), 'list'))


def leaf_getattr(interp, v, name):
    f = {'shape': leaf_shape, 'dtype': leaf_dtype, 'size': leaf_size, 'ndim': leaf_ndim}.get(name)
    return f(v) if f is not None else None


# ------------------------------------------------------------------------------- sizes
n_elements = z3.Function('n_elements', Struct, z3.IntSort())      # ghost: number of elements of a structure


def size_contracts(core='furax._base.core'):
    """callee contracts of AbstractLinearOperator.in_size / out_size in the alg facet: a function of the operator's
    input / output structure alone (their bodies are verified against sum-of-the-leaf-sizes in C04 and C05)"""
    def mk(which):
        def f(interp, fi, args, kwargs):
            _, _, i_, o_ = den_of(interp, args[0])
            return n_elements(i_ if which == 'in' else o_)
        return f
    return {f'{core}.AbstractLinearOperator.in_size': mk('in'), f'{core}.AbstractLinearOperator.out_size': mk('out')}


# ------------------------------------------------------------------------------- block containers' structures
def block_struct_axioms():
    return []


def block_structure_contracts():
    """callee contracts of AbstractBlockOperator.in_structure / out_structure in the alg facet: the pytree of the
    blocks' structures is the opaque token <Kind>in / <Kind>out of the block list (their honesty is C05/C10's)"""
    def mk(io):
        def contract(interp, fi, args, kwargs):
            self_ = args[0]
            kind = {'BlockRowOperator': 'Row', 'BlockDiagonalOperator': 'Diag', 'BlockColumnOperator': 'Col'}[self_.cls.name]
            seq = B.as_seq(interp, self_.fields['blocks'])
            arr = arr_of(interp.run, seq)
            return BLKS[kind + io](arr, to_z3(seq.length))
        return contract
    return {'furax._base.blocks.AbstractBlockOperator.in_structure': mk('in'),
            'furax._base.blocks.AbstractBlockOperator.out_structure': mk('out')}


RES_KIND = {('Row', 'Diag'): 'Row', ('Diag', 'Col'): 'Col', ('Diag', 'Diag'): 'Diag', ('Row', 'Col'): 'Sum'}


def lem_LA4(kl, kr, l, r, p, n):
    """LA4 block-matrix products: row∘diag = row, diag∘col = col, diag∘diag = diag of the block-wise products;
    row∘col = the sum of the block-wise products"""
    k = fresh_int('k')
    hyp = z3.ForAll([k], z3.Implies(z3.And(k >= 0, k < n), z3.And(denw(p[k]) == z3.Concat(denw(l[k]), denw(r[k])),
                                                                 denc(p[k]) == denc(l[k]) * denc(r[k]))))
    res = RES_KIND[(kl, kr)]
    lhs = z3.Concat(BLKW[kl](l, n), BLKW[kr](r, n))
    if res == 'Sum':
        return z3.Implies(hyp, z3.And(lhs == Sw(p, n), Sc(p, n) == 1))
    return z3.Implies(hyp, lhs == BLKW[res](p, n))


def lem_tree_struct_injective(f, a, g, b, n, sel_a, sel_b):
    """two containers' structure trees (same layout) are equal iff their leaves are equal"""
    k = fresh_int('k')
    if f in (TreeIn, TreeOut) and g in (TreeIn, TreeOut):
        return z3.Implies(f(a, n) == g(b, n), z3.ForAll([k], z3.Implies(z3.And(k >= 0, k < n), sel_a(a[k]) == sel_b(b[k]))))
    return z3.BoolVal(True)


def container_callee_contracts(P):
    """callee contracts used when a rule builds and reduces a container (each proved by its own scenario):
    Block*.__init__ (C10: validation), Block*.reduce / AdditionOperator.reduce (C01: same map, same structures)"""
    KIND = {'BlockRowOperator': 'Row', 'BlockDiagonalOperator': 'Diag', 'BlockColumnOperator': 'Col'}

    def init(shared):
        def contract(interp, fi, args, kwargs):
            self_, blocks = args[0], args[1]
            seq = B.as_seq(interp, blocks)
            arr = arr_of(interp.run, seq)
            n = to_z3(seq.length)
            k = fresh_int('k')
            if shared is not None:
                same = z3.ForAll([k], z3.Implies(z3.And(k >= 0, k < n), shared(arr[k]) == shared(arr[0])))
                if not interp.run.branch(same):
                    interp.raise_('ValueError', 'blocks must share a structure')
            self_.fields['blocks'] = blocks
            return None
        return contract

    def reduce_(interp, fi, args, kwargs):
        self_ = args[0]
        c, w, i_, o_ = den_of(interp, self_)
        r = fresh_const('reduced_container', Op)
        interp.run.assume(z3.And(denw(r) == w, denc(r) == c, ins(r) == i_, outs(r) == o_))
        return r
    out = {'furax._base.blocks.BlockRowOperator.__init__': init(outs),
           'furax._base.blocks.BlockColumnOperator.__init__': init(ins),
           'furax._base.blocks.AbstractBlockOperator.__init__': init(None),
           'furax._base.blocks.AbstractBlockOperator.reduce': reduce_,
           'furax._base.blocks.BlockDiagonalOperator.reduce': reduce_,
           'furax._base.core.AdditionOperator.reduce': reduce_}
    return out


def plain_operator(S, clsname, name):
    """an instance of `clsname` standing for an ordinary operator whose own semantics is irrelevant here: its
    in_structure()/out_structure()/reduce() are answered by the ghost functions of a fresh Op term (callee contracts)"""
    t = z3.Const(name, Op)
    o = S.new(clsname)
    o.plain = t
    o._op_term = t
    S.inputs[name] = t
    return o


def plain_call_hook(interp, fi, args, kwargs):
    if args and isinstance(args[0], Obj) and getattr(args[0], 'plain', None) is not None:
        t = args[0].plain
        if fi.name == 'in_structure':
            return (ins(t),)
        if fi.name == 'out_structure':
            return (outs(t),)
        if fi.name == 'out_promoted_dtype':
            return (promoted(outs(t)),)
        if fi.name == 'in_promoted_dtype':
            return (promoted(ins(t)),)
    return None

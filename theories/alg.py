"""`alg` facet: operators as terms of a free typed algebra of linear maps.

Ghost vocabulary (DESIGN §3.1):
  Op, Struct, Atom, Rule         uninterpreted sorts
  denw(o) : Seq(Atom)            the word of o (product of opaque atoms; associativity and unit built in)
  denc(o) : Real                 the scalar coefficient factored out of o   (LA1: scalars are central — trusted)
  ins(o), outs(o) : Struct       input / output structures
  Ww(a, lo, hi), Wc(a, lo, hi)   word / coefficient of the product a[lo] ∘ … ∘ a[hi-1]   (fold lemmas below)
  cls(o) : Int                   class tag (index into the real class table), is_cls via the real MRO
  Chk(r, l, r'), Apl(r, l, r')   "rule r's check passes / apply succeeds on (l, r')"
  Red(l, r) := ∃ registered rule m: Chk ∧ Apl

Operators of *unknown* class are raw z3 constants of sort Op; method calls on them resolve to the ghost functions
(in_structure → ins, out_structure → outs, in_size/out_size → ghost ints, `.value` of a scalar operator → denc).
Constructing IdentityOperator / HomothetyOperator / CompositionOperator inside code under analysis yields a fresh Op
constrained by that class's invariant (the invariants are proved where the classes' own methods are verified).

Fold lemmas for W (proved by induction in props/lemmas.py; instantiated automatically at every list surgery):
  split, pair, singleton, empty, congruence under index shift.
"""
from __future__ import annotations

import z3

from pyvc import builtins_model as B
from pyvc.theory import Theory
from pyvc.values import (ClassRef, Obj, PyFunc, SSeq, Unsupported, Value, concrete, fresh_const, fresh_int, fresh_name,
                         is_z3, to_z3, z_and, z_eq, z_not, z_or, zbool)

Op = z3.DeclareSort('Op')
Struct = z3.DeclareSort('Struct')
Atom = z3.DeclareSort('Atom')
Rule = z3.DeclareSort('Rule')
Word = z3.SeqSort(Atom)
OpArr = z3.ArraySort(z3.IntSort(), Op)
RuleArr = z3.ArraySort(z3.IntSort(), Rule)

denw = z3.Function('denw', Op, Word)
denc = z3.Function('denc', Op, z3.RealSort())
ins = z3.Function('ins', Op, Struct)
outs = z3.Function('outs', Op, Struct)
insize = z3.Function('in_size', Op, z3.IntSort())
outsize = z3.Function('out_size', Op, z3.IntSort())
ssize = z3.Function('struct_size', Struct, z3.IntSort())
isHom = z3.Function('isHomothety', Op, z3.BoolSort())
isId = z3.Function('isIdentity', Op, z3.BoolSort())
Ww = z3.Function('Ww', OpArr, z3.IntSort(), z3.IntSort(), Word)
Wc = z3.Function('Wc', OpArr, z3.IntSort(), z3.IntSort(), z3.RealSort())
Chk = z3.Function('Chk', Rule, Op, Op, z3.BoolSort())
Apl = z3.Function('Apl', Rule, Op, Op, z3.BoolSort())
REG = z3.Const('REG', RuleArr)
REGLEN = z3.Int('REGLEN')
EMPTY = z3.Empty(Word)


def Red(l, r):
    m = fresh_int('m')
    return z3.Exists([m], z3.And(m >= 0, m < REGLEN, Chk(REG[m], l, r), Apl(REG[m], l, r)))


# ------------------------------------------------------------------------------- fold lemmas (instances)
def lem_split(a, lo, m, hi):
    lo, m, hi = (z3.simplify(to_z3(x)) for x in (lo, m, hi))
    return z3.Implies(z3.And(lo <= m, m <= hi),
                      z3.And(Ww(a, lo, hi) == z3.Concat(Ww(a, lo, m), Ww(a, m, hi)),
                             Wc(a, lo, hi) == Wc(a, lo, m) * Wc(a, m, hi)))


def lem_single(a, i):
    i = z3.simplify(to_z3(i))
    return z3.And(Ww(a, i, z3.simplify(i + 1)) == denw(a[i]), Wc(a, i, z3.simplify(i + 1)) == denc(a[i]))


def lem_pair(a, i):
    i = z3.simplify(to_z3(i))
    return z3.And(Ww(a, i, z3.simplify(i + 2)) == z3.Concat(denw(a[i]), denw(a[i + 1])),
                  Wc(a, i, z3.simplify(i + 2)) == denc(a[i]) * denc(a[i + 1]))


def lem_empty(a, i):
    i = z3.simplify(to_z3(i))
    return z3.And(Ww(a, i, i) == EMPTY, Wc(a, i, i) == 1)


def lem_cong(a, lo, hi, b, d):
    lo, hi, d = (z3.simplify(to_z3(x)) for x in (lo, hi, d))
    k = fresh_int('k')
    return z3.Implies(z3.ForAll([k], z3.Implies(z3.And(k >= lo, k < hi), a[k] == b[z3.simplify(k + d)])),
                      z3.And(Ww(a, lo, hi) == Ww(b, z3.simplify(lo + d), z3.simplify(hi + d)),
                             Wc(a, lo, hi) == Wc(b, z3.simplify(lo + d), z3.simplify(hi + d))))


def ax_empty():
    a = z3.Const('a!ax', OpArr)
    i = z3.Int('i!ax')
    return z3.ForAll([a, i], z3.And(Ww(a, i, i) == EMPTY, Wc(a, i, i) == 1), patterns=[Ww(a, i, i), Wc(a, i, i)])


def chain_ok(arr, n, lo=0):
    j = fresh_int('j')
    return z3.ForAll([j], z3.Implies(z3.And(j >= to_z3(lo), j + 1 < to_z3(n)), ins(arr[j]) == outs(arr[j + 1])))


def op_seq(name, length=None):
    """a symbolic list of operators of unknown class"""
    s = SSeq.fresh(name, Op, None, 'list', length)
    return s


def arr_of(run, seq: SSeq):
    arr, ax = seq.to_array(Op)
    for a in ax:
        run.assume(a)
    return arr


class AlgTheory(Theory):
    """method calls / isinstance on Op terms, construction of the core classes, list-surgery lemma instances"""

    def __init__(self, program):
        super().__init__()
        self.P = program
        self.symobj_sorts = {'Op', 'Rule'}
        self.sort_attr['Op'] = self.op_getattr
        self.sort_attr['Rule'] = self.rule_getattr
        self.isinstance_handlers.append(self.op_isinstance)
        self.cls_id = program.cls('IdentityOperator')
        self.cls_hom = program.cls('HomothetyOperator')
        self.instantiate_overrides[self.cls_id.fullname] = self.mk_identity
        self.instantiate_overrides[self.cls_hom.fullname] = self.mk_homothety
        self.module_overrides[('furax._base.rules', 'BINARY_RULE_REGISTRY')] = lambda interp: self.registry()
        self.externals['jax.numpy.array'] = lambda interp, v, **kw: v
        self.equals_handlers.append(self.struct_eq)

    # ---- structures are opaque terms with equality
    def struct_eq(self, interp, a, b):
        if is_z3(a) and is_z3(b) and a.sort() == Struct and b.sort() == Struct:
            return a == b
        return None

    # ---- the rule registry: an arbitrary sequence of rules (any registration order, any rule set obeying the contract)
    def registry(self):
        s = SSeq(REGLEN, lambda k: REG[to_z3(k)], 'list')
        s.arr = REG
        return s

    # ---- operators of unknown class
    def op_getattr(self, interp, o, name):
        if name == 'in_structure':
            return PyFunc(lambda interp: ins(o), 'Op.in_structure')
        if name == 'out_structure':
            return PyFunc(lambda interp: outs(o), 'Op.out_structure')
        if name == 'in_size':
            return PyFunc(lambda interp: insize(o), 'Op.in_size')
        if name == 'out_size':
            return PyFunc(lambda interp: outsize(o), 'Op.out_size')
        if name == 'value':
            # only scalar operators have it: reading it on another class is an AttributeError in Python
            if not interp.run.branch(isHom(o)):
                interp.raise_('AttributeError', 'value')
            return denc(o)
        if name == 'reduce':
            return PyFunc(lambda interp: self.reduce_contract(interp, o), 'Op.reduce')
        raise Unsupported(f'attribute {name} of an operator of unknown class')

    def reduce_contract(self, interp, o):
        """callee contract of X.reduce() (C01's own postcondition): same map, same structures, and the result is
        `reduced` (C07 assumes operands of the scan are already reduced)"""
        r = fresh_const('red', Op)
        interp.run.assume(z3.And(denw(r) == denw(o), denc(r) == denc(o), ins(r) == ins(o), outs(r) == outs(o),
                                 insize(r) == insize(o), outsize(r) == outsize(o)))
        return r

    def op_isinstance(self, interp, v, c):
        if is_z3(v) and v.sort() == Op:
            if isinstance(c, ClassRef):
                if c.info == self.cls_hom:
                    return isHom(v)
                if c.info == self.cls_id:
                    return isId(v)
                raise Unsupported(f'isinstance(<Op>, {c.info.name})')
            return False if not isinstance(c, (ClassRef,)) and not hasattr(c, 'path') else None
        return None

    def mk_identity(self, interp, ci, args, kwargs):
        (s,) = args
        o = fresh_const('identity', Op)
        interp.run.assume(z3.And(isId(o), z3.Not(isHom(o)), denw(o) == EMPTY, denc(o) == 1, ins(o) == s, outs(o) == s,
                                 insize(o) == ssize(s), outsize(o) == ssize(s)))
        return o

    def mk_homothety(self, interp, ci, args, kwargs):
        value, s = args
        o = fresh_const('homothety', Op)
        interp.run.assume(z3.And(isHom(o), z3.Not(isId(o)), denw(o) == EMPTY, denc(o) == to_z3(value), ins(o) == s,
                                 outs(o) == s, insize(o) == ssize(s), outsize(o) == ssize(s)))
        return o

    # ---- rules of unknown class (the rule contract)
    def rule_getattr(self, interp, r, name):
        if name == 'check':
            def check(interp, left, right):
                if not interp.run.branch(Chk(r, left, right)):
                    interp.raise_(self.P.cls('NoReduction'))
                return None
            return PyFunc(check, 'Rule.check')
        if name == 'apply':
            def apply(interp, left, right):
                if not interp.run.branch(Apl(r, left, right)):
                    interp.raise_(self.P.cls('NoReduction'))
                new = op_seq('new_ops')
                run = interp.run
                n = to_z3(new.length)
                run.assume(z3.And(n >= 0, n <= 2))
                run.assume(z3.And(lem_empty(new.arr, 0), lem_empty(new.arr, n), lem_split(new.arr, 0, 1, n),
                                  lem_single(new.arr, 0), lem_single(new.arr, 1), lem_pair(new.arr, 0)))
                # rule contract (C01): the product is preserved, end structures match, sizes of the ends kept
                run.assume(z3.And(Ww(new.arr, 0, n) == z3.Concat(denw(left), denw(right)),
                                  Wc(new.arr, 0, n) == denc(left) * denc(right)))
                run.assume(z3.Implies(n >= 1, z3.And(outs(new.arr[0]) == outs(left), ins(new.arr[n - 1]) == ins(right),
                                                     outsize(new.arr[0]) == outsize(left),
                                                     insize(new.arr[n - 1]) == insize(right))))
                run.assume(z3.Implies(n == 0, outs(left) == ins(right)))
                run.assume(z3.Implies(n == 2, ins(new.arr[0]) == outs(new.arr[1])))
                # C07 NF3 needs: rules never return an identity operator inside a longer chain -- NOT assumed here
                return B.PyList(None, seq=new)
            return PyFunc(apply, 'Rule.apply')
        raise Unsupported(f'attribute {name} of a rule of unknown class')

    # ---- [x for x in ops if keep(x)] over a symbolic list: Python's filter semantics + the filter lemma
    def filter_comprehension(self, interp, e, g, seq, fr, elt_fn, kind):
        import ast as _ast
        from pyvc.interp import Frame
        if not (isinstance(e.elt, _ast.Name) and isinstance(g.target, _ast.Name) and e.elt.id == g.target.id):
            return None
        run = interp.run
        S = arr_of(run, seq)
        n0 = to_z3(seq.length)

        def keep(x):
            f2 = Frame(fr.module, fr, fr.func, fr.defcls)
            f2.is_comp = True
            f2.vars[g.target.id] = x
            return z_and(*[interp.truth_term(interp.ev(c, f2)) for c in g.ifs])
        R = op_seq('filtered')
        n = to_z3(R.length)
        idx = z3.Function(fresh_name('fidx'), z3.IntSort(), z3.IntSort())
        inv = z3.Function(fresh_name('finv'), z3.IntSort(), z3.IntSort())
        k, k2, j = fresh_int('k'), fresh_int('k'), fresh_int('j')
        # definition of the filtered list (faithful to the comprehension): an order-preserving selection of exactly
        # the elements satisfying the condition
        run.assume(z3.And(n >= 0, n <= n0,
                          z3.ForAll([k], z3.Implies(z3.And(k >= 0, k < n),
                                                    z3.And(idx(k) >= 0, idx(k) < n0, R.arr[k] == S[idx(k)],
                                                           zbool(keep(S[idx(k)])))), patterns=[R.arr[k]]),
                          z3.ForAll([k, k2], z3.Implies(z3.And(k >= 0, k < k2, k2 < n), idx(k) < idx(k2))),
                          z3.ForAll([j], z3.Implies(z3.And(j >= 0, j < n0, zbool(keep(S[j]))),
                                                    z3.And(inv(j) >= 0, inv(j) < n, idx(inv(j)) == j)), patterns=[inv(j)])))
        # filter lemma (induction over the list, trusted): if every dropped element is a neutral square factor, the
        # product, the typing of the chain and its end structures are unchanged
        neutral = z3.ForAll([j], z3.Implies(z3.And(j >= 0, j < n0, z3.Not(zbool(keep(S[j])))),
                                            z3.And(denw(S[j]) == EMPTY, denc(S[j]) == 1, ins(S[j]) == outs(S[j]))))
        run.assume(z3.Implies(neutral, z3.And(
            Ww(R.arr, 0, n) == Ww(S, 0, n0), Wc(R.arr, 0, n) == Wc(S, 0, n0),
            z3.Implies(chain_ok(S, n0), z3.And(
                chain_ok(R.arr, n),
                z3.Implies(n >= 1, z3.And(outs(R.arr[0]) == outs(S[0]), ins(R.arr[n - 1]) == ins(S[n0 - 1]))),
                z3.Implies(z3.And(n == 0, n0 >= 1), outs(S[0]) == ins(S[n0 - 1])))))))
        interp.run.events.append(('lemma', 'filter-preserves-product'))
        return R

    # ---- lemma instances at list surgery: operands[lo:hi] = new
    def after_list_surgery(self, interp, lst, cur: SSeq, lo, hi, new: SSeq):
        run = interp.run
        res = lst.seq
        if res is None:
            return
        try:
            a0 = arr_of(run, cur)
            an = arr_of(run, new)
            ar = arr_of(run, res)
        except Exception:
            return
        n0, nn, nr = to_z3(cur.length), to_z3(new.length), to_z3(res.length)
        lo, hi = to_z3(lo), to_z3(hi)
        for lem in (lem_split(a0, 0, lo, n0), lem_split(a0, lo, hi, n0), z3.Implies(hi == lo + 2, lem_pair(a0, lo)),
                    z3.Implies(hi == lo + 1, lem_single(a0, lo)),
                    lem_split(ar, 0, lo, nr), lem_split(ar, lo, lo + nn, nr),
                    lem_cong(ar, 0, lo, a0, 0), lem_cong(ar, lo, lo + nn, an, -lo),
                    lem_cong(ar, lo + nn, nr, a0, (hi - lo) - nn),
                    lem_empty(ar, 0), lem_empty(a0, 0), lem_empty(an, 0), lem_empty(ar, nr), lem_empty(a0, n0),
                    lem_empty(an, nn)):
            run.assume(lem)

    def after_list_concat(self, interp, res, a: SSeq, b: SSeq):
        run = interp.run
        try:
            aa, ab, ar = arr_of(run, a), arr_of(run, b), arr_of(run, res.seq)
        except Exception:
            return
        na, nb = to_z3(a.length), to_z3(b.length)
        nr = na + nb
        for lem in (lem_split(ar, 0, na, nr), lem_cong(ar, 0, na, aa, 0), lem_cong(ar, na, nr, ab, -na),
                    lem_empty(ar, 0), lem_empty(aa, 0), lem_empty(ab, 0), lem_empty(ar, nr),
                    z3.Implies(na == 1, lem_single(aa, 0)), z3.Implies(nb == 1, lem_single(ab, 0))):
            run.assume(lem)

    def after_list_append(self, interp, lst, cur: SSeq, x):
        run = interp.run
        if not (is_z3(x) and x.sort() == Op):
            return
        res = lst.seq
        a0 = arr_of(run, cur)
        ar = arr_of(run, res)
        n0 = to_z3(cur.length)
        for lem in (lem_split(ar, 0, n0, n0 + 1), lem_single(ar, n0), lem_cong(ar, 0, n0, a0, 0), lem_empty(ar, 0),
                    lem_empty(a0, 0)):
            run.assume(lem)

"""Sequence idioms of the standard library over sequences of symbolic length.

  * `[k for k, v in collections.Counter(seq).items() if <cond on v>]` (pyvc.theory.CounterV / DistinctSeq): only the
    *emptiness* of the resulting list is modelled, semantically: with M(i) the multiplicity of seq[i] in seq
    (M(i) >= 1;  M(i) >= 2  iff  some other position holds the same value), the list is non-empty iff the condition
    holds for (seq[i], M(i)) at some position i.  The condition is the comprehension's own `if` clauses, evaluated on
    the symbolic pair, so `v > 1` gives "some value occurs at least twice" and `v >= 1` gives "seq is non-empty".
    (Conditions that distinguish multiplicities above 2 are under-determined: M is only constrained at 1 / >= 2.)
"""
from __future__ import annotations

import ast

import z3

from pyvc.interp import Frame
from pyvc.theory import DistinctSeq, Theory
from pyvc.values import SSeq, fresh_int, fresh_name, to_z3, z_and, z_eq, zbool


def filter_comprehension(interp, e, g, seq, fr, elt_fn, kind):
    if not isinstance(seq, DistinctSeq) or not g.ifs:
        return None
    if not (isinstance(g.target, (ast.Tuple, ast.List)) and len(g.target.elts) == 2):
        return None
    src = seq.src
    n = to_z3(src.length)
    M = z3.Function(fresh_name('mult'), z3.IntSort(), z3.IntSort())
    i, j = fresh_int('i'), fresh_int('j')
    run = interp.run
    run.assume(z3.ForAll([i], z3.Implies(z3.And(0 <= i, i < n), z3.And(
        M(i) >= 1,
        (M(i) >= 2) == z3.Exists([j], z3.And(0 <= j, j < n, j != i, zbool(z_eq(src.get(j), src.get(i)))))))))
    p = fresh_int('p')
    f2 = Frame(fr.module, fr, fr.func, fr.defcls)
    f2.is_comp = True
    interp.assign(g.target, (src.get(p), M(p)), f2)
    cond = z_and(*[interp.truth_term(interp.ev(c, f2)) for c in g.ifs])
    nonempty = z3.Exists([p], z3.And(0 <= p, p < n, zbool(cond)))
    out = SSeq.fresh('selected', kind='list')
    m = to_z3(out.length)
    run.assume(z3.And(m >= 0, (m > 0) == nonempty))
    return out


def install(T: Theory):
    T.filter_comprehension = filter_comprehension
    return T

"""Finite dtype model for the `struct` facet (C05): the JAX dtypes furax meets, the type-promotion table, weakly
typed Python scalars and dtype canonicalisation under the 64-bit flag.

Assumed contracts (trusted base; generated from jax 0.11 with jax_enable_x64=True and embedded below; the native oracle
`promotion_table` of oracles/C05.py re-checks every entry against the installed JAX in BOTH precision modes — a bounded
conformance check, never counted as proof):
  * jnp.result_type / binary arithmetic of two strongly typed operands: STRONG[a][b] (symmetric), then canonicalisation;
  * a weakly typed Python scalar (int / float / complex) against an array dtype: WEAK[kind][dtype];
  * element-wise real functions (cos, sin, sqrt, ...): FLOAT_FN[dtype] (inexact dtypes are kept);  `1 / x`: TRUE_DIV[dtype];
  * canonicalisation: with jax_enable_x64 off every 64-bit dtype is truncated to its 32-bit counterpart by every array
    constructor AND by jnp.result_type; jax.ShapeDtypeStruct records the dtype as given (so a float64 structure has no
    matching array when the flag is off: "input matching in_structure()" presupposes canon(dtype) == dtype);
  * negation, indexing, reshape, moveaxis, where(c, a, a'), concatenate of equal dtypes: dtype kept.
"""
from __future__ import annotations

import z3

NAMES = ['bool', 'int32', 'int64', 'float32', 'float64', 'complex64', 'complex128']
DT, CONSTS = z3.EnumSort('DTypeE', NAMES)
BOOL, I32, I64, F32, F64, C64, C128 = CONSTS
BY_NAME = dict(zip(NAMES, CONSTS))
X64 = z3.Bool('x64')                    # jax_enable_x64 (same constant as theories/elem.X64)

STRONG = {'bool': {'bool': 'bool',
          'complex128': 'complex128',
          'complex64': 'complex64',
          'float32': 'float32',
          'float64': 'float64',
          'int32': 'int32',
          'int64': 'int64'},
 'complex128': {'bool': 'complex128',
                'complex128': 'complex128',
                'complex64': 'complex128',
                'float32': 'complex128',
                'float64': 'complex128',
                'int32': 'complex128',
                'int64': 'complex128'},
 'complex64': {'bool': 'complex64',
               'complex128': 'complex128',
               'complex64': 'complex64',
               'float32': 'complex64',
               'float64': 'complex128',
               'int32': 'complex64',
               'int64': 'complex64'},
 'float32': {'bool': 'float32',
             'complex128': 'complex128',
             'complex64': 'complex64',
             'float32': 'float32',
             'float64': 'float64',
             'int32': 'float32',
             'int64': 'float32'},
 'float64': {'bool': 'float64',
             'complex128': 'complex128',
             'complex64': 'complex128',
             'float32': 'float64',
             'float64': 'float64',
             'int32': 'float64',
             'int64': 'float64'},
 'int32': {'bool': 'int32',
           'complex128': 'complex128',
           'complex64': 'complex64',
           'float32': 'float32',
           'float64': 'float64',
           'int32': 'int32',
           'int64': 'int64'},
 'int64': {'bool': 'int64',
           'complex128': 'complex128',
           'complex64': 'complex64',
           'float32': 'float32',
           'float64': 'float64',
           'int32': 'int64',
           'int64': 'int64'}}
WEAK = {'complex': {'bool': 'complex128',
             'complex128': 'complex128',
             'complex64': 'complex64',
             'float32': 'complex64',
             'float64': 'complex128',
             'int32': 'complex128',
             'int64': 'complex128'},
 'float': {'bool': 'float64',
           'complex128': 'complex128',
           'complex64': 'complex64',
           'float32': 'float32',
           'float64': 'float64',
           'int32': 'float64',
           'int64': 'float64'},
 'int': {'bool': 'int64',
         'complex128': 'complex128',
         'complex64': 'complex64',
         'float32': 'float32',
         'float64': 'float64',
         'int32': 'int32',
         'int64': 'int64'}}
FLOAT_FN = {'bool': 'float32',
 'complex128': 'complex128',
 'complex64': 'complex64',
 'float32': 'float32',
 'float64': 'float64',
 'int32': 'float32',
 'int64': 'float64'}
TRUE_DIV = {'bool': 'float64',
 'complex128': 'complex128',
 'complex64': 'complex64',
 'float32': 'float32',
 'float64': 'float64',
 'int32': 'float32',
 'int64': 'float64'}
NARROW = {'int64': 'int32', 'float64': 'float32', 'complex128': 'complex64'}


def _table1(tab, d):
    """nested If over a one-argument table"""
    out = BY_NAME[tab[NAMES[-1]]]
    for n in reversed(NAMES[:-1]):
        out = z3.If(d == BY_NAME[n], BY_NAME[tab[n]], out)
    return out


def canon(d):
    """dtype canonicalisation of array constructors / result_type in the current precision mode"""
    out = d
    for wide, narrow in NARROW.items():
        out = z3.If(d == BY_NAME[wide], BY_NAME[narrow], out)
    return z3.simplify(z3.If(X64, d, out))


def promote_strong(a, b):
    """lattice join of two strongly typed dtypes with the 64-bit flag on (canonicalise the result with `canon`)"""
    if z3.eq(a, b):
        return a
    out = None
    for n in reversed(NAMES):
        row = _table1(STRONG[n], b)
        out = row if out is None else z3.If(a == BY_NAME[n], row, out)
    return z3.simplify(out)


def promote(a, b):
    return canon(promote_strong(a, b))


def promote_weak(kind, d):
    """a weakly typed Python scalar of the given kind ('int' | 'float' | 'complex') against an array of dtype d"""
    return canon(z3.simplify(_table1(WEAK[kind], d)))


def float_fn(d):
    return canon(z3.simplify(_table1(FLOAT_FN, d)))


def true_div_weak_int(d):
    return canon(z3.simplify(_table1(TRUE_DIV, d)))


def result_type(ds):
    """jnp.result_type(*arrays-or-structures)"""
    ds = list(ds)
    out = ds[0]
    for d in ds[1:]:
        out = promote_strong(out, d)
    return canon(out)


def is_inexact(d):
    return z3.Or(d == F32, d == F64, d == C64, d == C128)


def realisable(d):
    """some array has this dtype in the current precision mode"""
    return canon(d) == d

"""Abstract element model for dense-matrix builders (C04 b/c): arrays as (shape, dtype, size, flattened content : Vec),
a 2-D matrix under construction as an uninterpreted map  column index -> Vec  with store semantics, pytrees with a
symbolic number of leaves (theories/structs.py + theories/trees.py), sums of sizes as the ghost fold `Psum`.

Assumed dependency contracts (trusted base):
  * jnp.full(shape, v, dtype): an array of that shape / dtype whose flattened content is fullv(size, v), size = the
    product of the shape;  jnp.empty((r, c), dtype): an r x c matrix of that dtype with arbitrary content.
  * a.ravel(): shape (a.size,), same row-major content;  a.reshape(s): shape s, same row-major content, legal iff the
    product of s is a.size (obligation `pre`).
  * v.at[i].set(c) for a 1-D v and an integer i: the content setv(v, i, c) — position i replaced by c — for 0 <= i < size
    (JAX silently drops out-of-range updates, so in-range is an obligation `bounds`); indexing an axis of static size 0 is
    refused by JAX while TRACING (IndexError), whatever the index.
  * M.at[:, j].set(v) for a matrix M and a 1-D v: column j replaced by v, every other column unchanged, same shape and
    dtype (v is cast to M's dtype); requires 0 <= j < ncols (obligation `bounds`) and len(v) == nrows (obligation `pre`:
    JAX raises for shapes that do not broadcast).  Any other index pattern (e.g. M.at[j, :], a ROW) is not a column store:
    reported by the obligation `post:matrix-is-updated-one-column-at-a-time`.
  * jnp.concatenate(parts) for 1-D parts: content Flat(P, n) — an uninterpreted function of the sequence of the parts'
    contents (P[0..n-1] in order) — length = the sum of the parts' lengths.
  * lax.fori_loop(lo, hi, body, init) = `carry = init; for i in range(lo, hi): carry = body(i, carry)`: proof rule of a
    loop with an invariant Inv(i, carry) given by the pack (ForiSpec): Inv(lo, init); {lo <= i < hi ∧ Inv(i, c)} c' =
    body(i, c) {Inv(i+1, c')}; result: some c with Inv(max(lo, hi), c).  JAX traces `body` once even when hi <= lo:
    a static-shape error inside body (see `.at[i]` above) is raised whatever the trip count (branch `trace`).
  * sum(g) over a generator / list of symbolic length n: Psum(A, 0, n) with A the materialised summands; Psum obeys the
    fold lemmas (empty, single, split, non-negativity, congruence) — instances are added where sums are formed.
"""
from __future__ import annotations

import z3

from pyvc import builtins_model as B
from pyvc.theory import Theory
from pyvc.values import (PathEnd, PyFunc, SSeq, Unsupported, Value, concrete, fresh_const, fresh_int, fresh_name,
                         is_intlike, is_z3, to_real, to_z3, z_and, z_eq, zbool)
from theories import structs as ST
from theories import trees as TR

Vec = z3.DeclareSort('Vec')
VecArr = z3.ArraySort(z3.IntSort(), Vec)
IntArr = ST.IntArr
fullv = z3.Function('fullv', z3.IntSort(), z3.RealSort(), Vec)
setv = z3.Function('setv', Vec, z3.IntSort(), z3.RealSort(), Vec)
Flat = z3.Function('flatcat', VecArr, z3.IntSort(), Vec)
Psum = z3.Function('Psum', IntArr, z3.IntSort(), z3.IntSort(), z3.IntSort())


def _s(x):
    return z3.simplify(to_z3(x))


# ---- fold lemmas of Psum (definition of a finite sum by recursion on the upper bound; instances only)
def psum_empty(a, i):
    i = _s(i)
    return Psum(a, i, i) == 0


def psum_step(a, lo, k):
    """Psum(a, lo, k+1) = Psum(a, lo, k) + a[k]   for lo <= k"""
    lo, k = _s(lo), _s(k)
    return z3.Implies(lo <= k, Psum(a, lo, _s(k + 1)) == Psum(a, lo, k) + a[k])


def psum_split(a, lo, mid, hi):
    lo, mid, hi = _s(lo), _s(mid), _s(hi)
    return z3.Implies(z3.And(lo <= mid, mid <= hi), Psum(a, lo, hi) == Psum(a, lo, mid) + Psum(a, mid, hi))


def psum_nonneg(a, lo, hi):
    lo, hi = _s(lo), _s(hi)
    k = fresh_int('k')
    return z3.Implies(z3.ForAll([k], z3.Implies(z3.And(lo <= k, k < hi), a[k] >= 0)), Psum(a, lo, hi) >= 0)


def psum_cong(a, b, n, m):
    n, m = _s(n), _s(m)
    cn, cm = concrete(n), concrete(m)
    if cn is not None and cm is not None:
        if cn != cm:
            return z3.BoolVal(True)
        return z3.Implies(z3.And(*[a[i] == b[i] for i in range(cn)]) if cn else z3.BoolVal(True),
                          Psum(a, 0, n) == Psum(b, 0, m))
    k = fresh_int('k')
    return z3.Implies(z3.And(n == m, z3.ForAll([k], z3.Implies(z3.And(0 <= k, k < n), a[k] == b[k]))),
                      Psum(a, 0, n) == Psum(b, 0, m))


def register_sum(run, arr, n):
    """make a materialised summand array known: congruence instances against every other registered array"""
    reg = run.ghost.setdefault('psums', [])
    for (a2, n2) in reg:
        if a2 is arr:
            return
        run.assume(psum_cong(arr, a2, n, n2))
    run.assume(psum_empty(arr, 0))
    cn = concrete(n)
    if cn is not None and cn <= 6:
        for i in range(cn):
            run.assume(psum_step(arr, 0, i))
    reg.append((arr, n))


def psum_term(run, seq: SSeq):
    arr, ax = seq.to_array()
    for a in ax:
        run.assume(a)
    n = to_z3(seq.length)
    register_sum(run, arr, n)
    return Psum(arr, 0, n)


def leaf_of_shape(seq):
    """the Leaf term t when seq is exactly `t.shape` (built by structs.LeafV.shape), else None"""
    arr = getattr(seq, 'arr', None)
    if arr is not None and z3.is_app(arr) and arr.decl().name() == 'shape' and is_z3(seq.length) \
            and z3.eq(_s(seq.length), _s(ST.f_ndim(arr.arg(0)))):
        segs = getattr(seq, 'segs', None)
        if segs and len(segs) == 1 and segs[0][0] == 'src' and concrete(segs[0][2]) == 0:
            return arr.arg(0)
    return None


def size_of_shape(run, seq: SSeq):
    t = leaf_of_shape(seq)
    if t is not None:
        return ST.f_size(t)          # wf: f_size(t) = Pprod(shape(t), 0, ndim(t)) (assumed for structure leaves)
    return ST.prod_term(run, seq)


def _meta(interp, note=None):
    S = getattr(interp.run, '_S', None)
    m = {}
    if S is not None:
        m = {'inputs': dict(S.inputs), 'func': S.func_name, 'scenario': S.label}
        if S.oracle:
            m['oracle'] = S.oracle
    if note:
        m['note'] = note
    g = interp.run.ghost
    g['cm_n'] = g.get('cm_n', 0) + 1
    m['ordinal'] = 300000 + g['cm_n']
    return m


def ob(interp, kind, tag, goal, note=None):
    interp.run.oblige(f'{interp.cur_name()}/{kind}:{tag}', goal, kind=kind, meta=_meta(interp, note))


# ---------------------------------------------------------------------------------------------- arrays
class AV(Value):
    """an array: shape (SSeq of Int), dtype, number of elements, flattened row-major content (term of sort Vec)"""

    def __init__(self, shape: SSeq, data, dtype, size):
        self.shape, self.data, self.dtype, self.size = shape, data, dtype, size

    def __repr__(self):
        return f'<array {self.data}>'

    def sym_eq(self, other):
        if not isinstance(other, AV):
            return False
        return z_and(self.shape.eq(other.shape), self.data == other.data, z_eq(self.dtype, other.dtype))

    def ite_merge(self, c, other, self_is_then):
        if not isinstance(other, AV):
            raise Unsupported('ite of an array and a non-array')
        a, b = (self, other) if self_is_then else (other, self)
        sh = SSeq(z3.If(c, to_z3(a.shape.length), to_z3(b.shape.length)),
                  lambda k: z3.If(c, to_z3(a.shape.get(k)), to_z3(b.shape.get(k))), 'tuple')
        return AV(sh, z3.If(c, a.data, b.data), z3.If(c, a.dtype, b.dtype) if not (a.dtype is b.dtype) else a.dtype,
                  z3.If(c, to_z3(a.size), to_z3(b.size)))

    def py_getattr(self, interp, name):
        if name == 'shape':
            return self.shape
        if name == 'ndim':
            return self.shape.length
        if name == 'size':
            return self.size
        if name == 'dtype':
            return self.dtype
        if name in ('ravel', 'flatten'):
            return PyFunc(lambda interp: AV(SSeq.lift((self.size,)), self.data, self.dtype, self.size), 'Array.ravel')
        if name == 'reshape':
            def reshape(interp, *a):
                new = B.as_seq(interp, a[0]) if len(a) == 1 and not is_intlike(a[0]) else SSeq.lift(tuple(a))
                if concrete(new.length) == 1 and concrete(new.get(0)) == -1:
                    return AV(SSeq.lift((self.size,)), self.data, self.dtype, self.size)       # reshape(-1) is ravel()
                new = SSeq(new.length, new.get, 'tuple') if not hasattr(new, 'arr') else new
                ob(interp, 'pre', 'reshape-keeps-the-number-of-elements',
                   to_z3(size_of_shape(interp.run, new)) == to_z3(self.size))
                return AV(new, self.data, self.dtype, self.size)
            return PyFunc(reshape, 'Array.reshape')
        if name == 'at':
            return AtAV(self)
        raise Unsupported(f'array attribute {name}')


class AtAV(Value):
    def __init__(self, arr: AV):
        self.arr = arr

    def py_getitem(self, interp, idx):
        a = self.arr
        if isinstance(idx, tuple) and len(idx) == 1:
            idx = idx[0]
        if not is_intlike(idx):
            raise Unsupported(f'.at[{idx!r}] on an abstract array')
        if concrete(a.shape.length) != 1:
            raise Unsupported('.at[i] on an array that is not 1-D (abstract element model)')
        # JAX refuses, at trace time, to index an axis of static size 0
        if not interp.run.branch(to_z3(a.size) != 0):
            interp.raise_('IndexError', 'index is out of bounds for axis 0 with size 0')

        class Upd(Value):
            def py_getattr(s, interp, name):
                if name == 'set':
                    def set_(interp, v, **k):
                        ob(interp, 'bounds', 'at[i].set-index-in-range', z3.And(to_z3(idx) >= 0, to_z3(idx) < to_z3(a.size)))
                        return AV(a.shape, setv(a.data, to_z3(idx), to_real(v)), a.dtype, a.size)
                    return PyFunc(set_, 'at.set')
                raise Unsupported(f'at[].{name} on an abstract array')
        return Upd()


class MatV(Value):
    """a 2-D array under construction: shape (nrows, ncols), dtype, columns : Array Int -> Vec"""

    def __init__(self, nrows, ncols, dtype, cols):
        self.nrows, self.ncols, self.dtype, self.cols = nrows, ncols, dtype, cols

    def __repr__(self):
        return f'<matrix {self.nrows}x{self.ncols}>'

    def like(self, cols):
        return MatV(self.nrows, self.ncols, self.dtype, cols)

    def py_getattr(self, interp, name):
        if name == 'shape':
            return (self.nrows, self.ncols)
        if name == 'ndim':
            return 2
        if name == 'dtype':
            return self.dtype
        if name == 'at':
            return AtMat(self)
        raise Unsupported(f'matrix attribute {name}')


def _full_slice(s):
    return isinstance(s, slice) and s.start is None and s.stop is None and s.step is None


class AtMat(Value):
    def __init__(self, m: MatV):
        self.m = m

    def py_getitem(self, interp, idx):
        m = self.m

        class Upd(Value):
            def py_getattr(s, interp, name):
                if name != 'set':
                    raise Unsupported(f'at[].{name} on an abstract matrix')

                def set_(interp, v, **k):
                    column = isinstance(idx, tuple) and len(idx) == 2 and _full_slice(idx[0]) and is_intlike(idx[1])
                    ob(interp, 'post', 'matrix-is-updated-one-column-at-a-time (.at[:, j])', bool(column),
                       note=f'index pattern {idx!r}')
                    if not column:
                        return m.like(fresh_const('cols', VecArr))
                    j = to_z3(idx[1])
                    if not isinstance(v, AV) or concrete(v.shape.length) != 1:
                        raise Unsupported('column value is not a 1-D abstract array')
                    ob(interp, 'bounds', 'column-index-in-range', z3.And(j >= 0, j < to_z3(m.ncols)))
                    ob(interp, 'pre', 'column-has-as-many-entries-as-the-matrix-has-rows', to_z3(v.size) == to_z3(m.nrows))
                    interp.run.ghost.setdefault('column_writes', []).append((j, v))
                    return m.like(z3.Store(m.cols, j, v.data))
                return PyFunc(set_, 'at.set')
        return Upd()


# ---------------------------------------------------------------------------------------------- fori_loop
class ForiCtx:
    def __init__(self, interp, frame, lo, hi, init):
        self.interp, self.frame, self.lo, self.hi, self.init = interp, frame, lo, hi, init
        self.run = interp.run

    def var(self, name):
        ok, v = self.frame.lookup(name)
        if not ok:
            raise Unsupported(f'fori_loop contract reads unbound local {name!r}')
        return v


class ForiSpec:
    """invariant(ctx, i, carry) -> Bool; havoc(ctx, carry) -> fresh carry of the same kind; lemmas(ctx, i) -> instances"""

    def __init__(self, invariant, havoc, lemmas=None):
        self.invariant, self.havoc, self.lemmas = invariant, havoc, lemmas


def install(T: Theory):
    ST.install(T)
    TR.install(T)
    T.fori_specs = {}
    T.flat_lemmas = []

    @T.ext('jax.numpy.full')
    def _full(interp, shape, fill_value, dtype=None):
        sh = B.as_seq(interp, shape)
        if not hasattr(sh, 'arr'):
            sh = SSeq(sh.length, sh.get, 'tuple')
        n = size_of_shape(interp.run, sh)
        return AV(sh, fullv(to_z3(n), to_real(fill_value)), dtype, n)

    @T.ext('jax.numpy.empty')
    def _empty(interp, shape, dtype=None):
        dims = interp.iter_concrete(shape)
        if len(dims) != 2:
            raise Unsupported('jnp.empty of a non-matrix (abstract element model)')
        return MatV(dims[0], dims[1], dtype, fresh_const('cols', VecArr))

    @T.ext('jax.numpy.concatenate')
    def _concatenate(interp, parts, **k):
        seq = B.as_seq(interp, parts)
        n = to_z3(seq.length)

        def piece(v):
            if not isinstance(v, AV) or concrete(v.shape.length) != 1:
                raise Unsupported('concatenate of something that is not a 1-D abstract array')
            return v
        P = z3.Const(fresh_name('pieces'), VecArr)
        kk = fresh_int('k')
        interp.run.assume(z3.ForAll([kk], P[kk] == piece(seq.get(kk)).data, patterns=[P[kk]]))
        sizes = SSeq(seq.length, lambda k: piece(seq.get(k)).size, 'list')
        total = psum_term(interp.run, sizes)
        for lem in T.flat_lemmas:
            for fact in lem(interp, P, n, seq):
                interp.run.assume(fact)
        r = AV(SSeq.lift((total,)), Flat(P, n), k.get('dtype'), total)
        r.pieces = (P, n, seq)
        return r

    T.seq_sum = lambda interp, seq, start: interp.binop('Add', start, psum_term(interp.run, seq))

    @T.ext('jax.lax.fori_loop')
    def _fori(interp, lo, hi, body, init, **k):
        caller = interp.callstack[-1][0] if getattr(interp, 'callstack', None) else None
        spec = T.fori_specs.get(caller)
        if spec is None:
            raise Unsupported(f'lax.fori_loop in {caller} without a carry invariant')
        run = interp.run
        ctx = ForiCtx(interp, getattr(body, 'frame', None), lo, hi, init)
        zlo, zhi = to_z3(lo), to_z3(hi)
        nm = f'{interp.cur_name()}'
        run.oblige(f'{nm}/inv-init:fori_loop', spec.invariant(ctx, zlo, init), kind='inv-init', meta=_meta(interp))
        which = run.decide(3)
        if which == 0:          # one generic iteration
            i = fresh_int('fori_i')
            run.assume(z3.And(zlo <= i, i < zhi))
            carry = spec.havoc(ctx, init)
            run.assume(spec.invariant(ctx, i, carry))
            for fact in (spec.lemmas(ctx, i, carry) if spec.lemmas else []):
                run.assume(fact)
            r = interp.call(body, [i, carry], {})
            run.oblige(f'{nm}/inv-pres:fori_loop', spec.invariant(ctx, i + 1, r), kind='inv-pres', meta=_meta(interp))
            raise PathEnd('end of fori_loop body iteration')
        if which == 2:          # zero trips: JAX still traces the body once (static-shape errors surface)
            run.assume(zhi <= zlo)
            i = fresh_int('fori_traced_i')
            n0 = len(run.obligations)
            run.ghost['fori_trace_only'] = True
            try:
                interp.call(body, [i, init], {})       # only an exception matters: the traced result is discarded
            finally:
                run.ghost['fori_trace_only'] = False
                del run.obligations[n0:]
            return init
        run.assume(zhi > zlo)
        carry = spec.havoc(ctx, init)
        run.assume(spec.invariant(ctx, zhi, carry))
        return carry
    return T


def theory():
    T = Theory()
    install(T)
    return T

"""Synthetic classes added to the class table for one scenario: the "one generic user subclass" of the closed world
(DESIGN §2.3): a concrete subclass of an abstract repo class that overrides nothing but the abstract methods, and a
generic operator `OtherOperator` whose methods are given by contracts (the induction hypothesis of composite operators)."""
from __future__ import annotations

import ast

from pyvc.source import ClassInfo, FuncInfo


def abstract_names(ci):
    seen, out = set(), []
    for c in ci.mro:
        for n, f in c.methods.items():
            if n in seen:
                continue
            seen.add(n)
            if any(ast.unparse(d).endswith('abstractmethod') for d in f.decorators):
                out.append((n, f))
        for n in c.patched:
            seen.add(n)
    return out


def concrete_subclass(P, base: ClassInfo, name=None, extra_methods=()):
    """class <name>(base): every abstract method replaced by a stub `def m(self, *a, **k): raise NotImplementedError`"""
    name = name or f'Concrete{base.name}'
    node = ast.parse(f'class {name}({base.name}):\n    pass').body[0]
    ci = ClassInfo(base.module, name, node, [], bases=[base])
    ci.mro = [ci] + list(base.mro)
    ci.ext_bases = list(base.ext_bases)
    names = [n for n, _ in abstract_names(base)] + list(extra_methods)
    for n in names:
        fn = ast.parse(f'def {n}(self, *args, **kwargs):\n    raise NotImplementedError').body[0]
        ci.methods[n] = FuncInfo(base.module, f'{name}.{n}', fn, ci, 'method', [])
    return ci

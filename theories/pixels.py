"""Point facet for the pixelisation code (C17): one generic element of an array expression, plus the array-level
multiset view used by the coverage histogram (shared with theories/indexing.py).

Assumed contracts (trusted base)
  * element-wise array code (`<=`, `<`, `&`, `+`, `*`, `+=`, `&=`, `jnp.where`) acts independently per element with
    NumPy broadcasting of Python scalars: verified on ONE generic element (`PtV`).
  * `jnp.round(c)`: an integer-valued result rnd(c) with |c - rnd(c)| <= 1/2, ties to the even neighbour
    (round-half-even); `rnd` is otherwise uninterpreted.  `x.astype(int32|int64)` of an integer-valued element is
    that integer SATURATED to the range of the dtype (XLA float->int conversion; checked natively).
  * integer arrays of dtype intB: a Python int operand of `<`, `<=`, `+`, `*` is converted to intB with WRAP-AROUND
    modulo 2^B for B = 32 (checked natively: `int32_array < 2**31` compares with -2**31); for B = 64 an operand outside
    the int64 range raises OverflowError (stated as a `pre` obligation); sums and products wrap modulo 2^B.
  * `np.iinfo(t)` for t = np.int32/np.int64: min/max of the type; `np.iinfo(np.iinfo(t))` returns the same
    information (checked natively with the installed NumPy: `np.iinfo(np.iinfo(np.int32)).max == 2**31 - 1`).
  * `jnp.where(c, a, b)`: element-wise select; the result dtype is that of the array operand when the other is a
    Python scalar.
  * `jhp.ang2pix(nside, theta, phi)`: an integer in [0, 12 nside^2) — the uninterpreted function Ang2pix(nside, theta,
    phi) (agreement with healpy is out of reach: assumed).
  * `partial(jax.jit, static_argnums=0)` on a method does not change its value (C18's assumed clause).
  * `jnp.unique`, `jnp.zeros`, `.at[].add`, `.reshape`: see theories/indexing.py.
"""
from __future__ import annotations

from fractions import Fraction

import z3

from pyvc import builtins_model as B
from pyvc.theory import Theory
from pyvc.values import (NOT_IMPLEMENTED, Ext, PyFunc, SSeq, Unsupported, Value, concrete, fresh_int, is_intlike,
                         is_numlike, is_z3, to_real, to_z3, z_and, z_eq, zbool)
from theories import indexing as IX

f_rnd = z3.Function('rnd', z3.RealSort(), z3.IntSort())
f_ang2pix = z3.Function('Ang2pix', z3.IntSort(), z3.RealSort(), z3.RealSort(), z3.IntSort())

INT_DTYPES = {'numpy.int32': 32, 'numpy.int64': 64, 'jax.numpy.int32': 32, 'jax.numpy.int64': 64}


def bits_of(dtype):
    return INT_DTYPES.get(dtype.path) if isinstance(dtype, Ext) else None


def wrap(x, bits):
    """two's-complement wrap-around of the integer term x to `bits` bits"""
    lo, hi = -2 ** (bits - 1), 2 ** (bits - 1) - 1
    x = to_z3(x)
    return z3.If(z3.And(x >= lo, x <= hi), x, ((x - lo) % (2 ** bits)) + lo)


def clamp(x, bits):
    lo, hi = -2 ** (bits - 1), 2 ** (bits - 1) - 1
    return z3.If(x < lo, z3.IntVal(lo), z3.If(x > hi, z3.IntVal(hi), x))




def rnd_axioms(c):
    """round-half-even, instance at c"""
    c = to_real(c)
    k = f_rnd(c)
    d = c - z3.ToReal(k)
    fl = z3.ToReal(z3.ToInt(c))
    return z3.And(d >= z3.RealVal(Fraction(-1, 2)), d <= z3.RealVal(Fraction(1, 2)),
                  z3.Implies(c - fl == z3.RealVal(Fraction(1, 2)), k % 2 == 0))


class PtV(Value):
    """one generic element of an array: term (Real / Int / Bool) and dtype (Ext of a numpy dtype, or None)"""

    def __init__(self, term, dtype=None):
        self.term = term
        self.dtype = dtype

    def __repr__(self):
        return f'<pt {self.term} : {self.dtype}>'

    @staticmethod
    def _t(v):
        if isinstance(v, PtV):
            return v.term
        if isinstance(v, bool):
            return z3.BoolVal(v)
        if is_z3(v) and z3.is_bool(v):
            return v
        if is_numlike(v):
            return to_z3(v)
        return None

    def _num2(self, other, interp=None):
        a, b = self.term, PtV._t(other)
        if b is None:
            return None
        if z3.is_bool(a) or z3.is_bool(b):
            return None
        bits = bits_of(self.dtype)
        if bits is not None and not isinstance(other, PtV) and b.sort() == z3.IntSort():
            # a Python int meets an intB array: converted to intB
            if bits == 32:
                b = wrap(b, 32)
            elif interp is not None:
                interp.run.oblige(f'{interp.cur_name()}/pre:python-int-operand-fits-int64',
                                  z3.And(b >= -2 ** 63, b <= 2 ** 63 - 1), kind='pre')
        if a.sort() != b.sort():
            a, b = to_real(a), to_real(b)
        return a, b

    def _dt(self, other):
        return self.dtype if self.dtype is not None else getattr(other, 'dtype', None)

    def _res(self, t, other):
        """result element of an arithmetic operation: wraps in the integer dtype of the operands"""
        dt = self._dt(other)
        bits = bits_of(dt)
        if bits is not None and t.sort() == z3.IntSort():
            t = wrap(t, bits)
        return PtV(t, dt)

    def py_compare(self, interp, op, other, refl):
        ab = self._num2(other, interp)
        if ab is None:
            return NOT_IMPLEMENTED
        a, b = ab
        if refl:
            a, b = b, a
        return PtV({'Lt': a < b, 'LtE': a <= b, 'Gt': a > b, 'GtE': a >= b}[op], Ext('numpy.bool_'))

    def py_binop(self, interp, op, other, refl):
        if op in ('BitAnd', 'BitOr'):
            b = PtV._t(other)
            if b is None or not z3.is_bool(self.term) or not z3.is_bool(b):
                return NOT_IMPLEMENTED
            return PtV(z3.And(self.term, b) if op == 'BitAnd' else z3.Or(self.term, b), Ext('numpy.bool_'))
        ab = self._num2(other, interp)
        if ab is None:
            return NOT_IMPLEMENTED
        a, b = ab
        if refl:
            a, b = b, a
        if op == 'Add':
            return self._res(a + b, other)
        if op == 'Sub':
            return self._res(a - b, other)
        if op == 'Mult':
            return self._res(a * b, other)
        return NOT_IMPLEMENTED

    def py_getattr(self, interp, name):
        if name == 'astype':
            def astype(interp, dtype):
                interp.used_externals.add('Array.astype')
                if isinstance(dtype, Ext) and dtype.path in INT_DTYPES:
                    t = self.term
                    b = INT_DTYPES[dtype.path]
                    if t.sort() == z3.IntSort():
                        return PtV(wrap(t, b), dtype)
                    if getattr(self, 'int_valued', None) is not None:
                        return PtV(clamp(self.int_valued, b), dtype)      # an integer-valued real: that integer, saturated
                    raise Unsupported('astype(int) of an element not known to be integer-valued')
                raise Unsupported(f'astype({dtype!r})')
            return PyFunc(astype, 'Array.astype')
        if name == 'dtype':
            return self.dtype
        raise Unsupported(f'array attribute {name} in the point facet')


class IInfoV(Value):
    def __init__(self, bits):
        self.bits = bits

    def py_getattr(self, interp, name):
        if name == 'max':
            return 2 ** (self.bits - 1) - 1
        if name == 'min':
            return -2 ** (self.bits - 1)
        if name == 'bits':
            return self.bits
        raise Unsupported(f'iinfo.{name}')


class MultiArr(Value):
    """an integer array seen as a multiset: mult(w) = number of entries equal to w; n = number of entries"""

    def __init__(self, mult, n):
        self.mult, self.n = mult, n


f_cast = z3.Function('CastTo', z3.RealSort(), z3.IntSort(), z3.RealSort())     # value after conversion to dtype #k


def install(T: Theory):
    IX.install(T)

    @T.ext('jax.numpy.asarray', 'jax.numpy.array')
    def _asarray(interp, x, dtype=None, **kw):
        """jnp.asarray(x[, dtype]): x itself without dtype or with its own dtype; otherwise a CONVERSION, which changes the
        value in general (rounding to a narrower float, truncation to an integer): uninterpreted CastTo(value, dtype)"""
        if not isinstance(x, PtV):
            raise Unsupported('jnp.asarray of something else than an array element (point facet)')
        if dtype is None or dtype is x.dtype or (isinstance(dtype, Ext) and isinstance(x.dtype, Ext) and dtype.path == x.dtype.path):
            return x
        interp.used_externals.add('jnp.asarray(x, dtype): value conversion')
        import zlib
        code = zlib.crc32(str(getattr(dtype, 'path', repr(dtype))).encode()) % 1000003
        return PtV(f_cast(to_real(x.term), z3.IntVal(code)), dtype)

    @T.ext('jax.numpy.round')
    def _round(interp, x, decimals=0):
        if not isinstance(x, PtV) or concrete(decimals) != 0:
            raise Unsupported('jnp.round outside the modelled form')
        c = to_real(x.term)
        interp.run.assume(rnd_axioms(c))
        r = PtV(z3.ToReal(f_rnd(c)), x.dtype)
        r.int_valued = f_rnd(c)
        return r

    @T.ext('jax.numpy.where')
    def _where(interp, c, a, b):
        if not isinstance(c, PtV) or not z3.is_bool(c.term):
            raise Unsupported('jnp.where with a non-boolean condition element')
        ta, tb = PtV._t(a), PtV._t(b)
        if ta is None or tb is None:
            raise Unsupported('jnp.where operands')
        if ta.sort() != tb.sort():
            ta, tb = to_real(ta), to_real(tb)
        dt = a.dtype if isinstance(a, PtV) else (b.dtype if isinstance(b, PtV) else None)
        return PtV(z3.If(c.term, ta, tb), dt)

    @T.ext('numpy.iinfo')
    def _iinfo(interp, t):
        if isinstance(t, IInfoV):
            return t                    # np.iinfo(np.iinfo(x)) == np.iinfo(x)   (checked natively)
        if isinstance(t, Ext) and t.path in INT_DTYPES:
            return IInfoV(INT_DTYPES[t.path])
        raise Unsupported(f'np.iinfo({t!r})')

    @T.ext('jax_healpy.ang2pix')
    def _ang2pix(interp, nside, theta, phi, *a, **kw):
        if a or kw or not is_intlike(nside) or not isinstance(theta, PtV) or not isinstance(phi, PtV):
            raise Unsupported('jhp.ang2pix outside the modelled form (nside, theta, phi)')
        p = f_ang2pix(to_z3(nside), to_real(theta.term), to_real(phi.term))
        interp.run.assume(z3.And(p >= 0, p < 12 * to_z3(nside) * to_z3(nside)))
        return PtV(p, Ext('numpy.int64'))

    # jnp.unique of a multiset array: handled by indexing's handler through the `.mult` attribute
    return T


def theory():
    T = Theory()
    install(T)
    return T
